"""C12 — no aliasing: caller arrays are never mutated or retained, outputs are copies.

Oracle = a **runtime alias monitor** around every public call of the real pyribs (no hooks):
  (1) every caller array is checksummed (bytes + flags, for views the whole base buffer) before
      and after the call;
  (2) the callee's object graph (archive / store / emitter / scheduler / optimizer via __dict__,
      lists, dicts, tuples, deques, object arrays, k-D trees) is walked; no array found there may
      overlap a caller array (np.may_share_memory / np.shares_memory); then the caller arrays are
      overwritten with garbage and every observable of the callee is re-read;
  (3) every returned array (recursively inside dicts / tuples / lists / DataFrames / dataclasses)
      is either not writeable or overlaps no internal array; then it is overwritten (if
      writeable; dicts get their values replaced) and the observables are re-read.
  Every case is run twice in lock step: once monitored (garbage written into every caller array
  and every returned object after each call) and once clean; every later observable of the two
  runs must agree (SlidingBoundariesArchive: through the next remaps), so deferred effects of a
  retained reference are seen as well.
Correspondence: for every monitored entry point the Lean machine `alias` is asked whether the
IR transcription of that entry point (asarray-branch bits = copy / no copy as implied by the
argument layout, every code-branch bit both ways) is accepted by the ownership monitor.
Runtime violation -> oracle failure; runtime clean but transcription rejected / missing -> corr.
Read-path agreement (dict / tuple / pandas / single field / iteration / get_field / iterelites /
best_elite / retrieve) is checked at runtime against `data()`; entries of object fields are compared
by Python type and value, and against the payloads that were submitted.
Scheduler.ask() / ask_dqd() are monitored calls as well (1, 2, 3 emitters of every class): the returned array may
be writeable only if it overlaps nothing reachable from the emitters / archives, and it is overwritten once the
matching tell / tell_dqd has returned. ArrayStore.add is also driven with chains of user transforms: every transform
must be handed its own copies of occupied / cur_data (equal to retrieve() at that moment, disjoint from what earlier
transforms were handed and from the store); in the monitored run every transform scribbles on them. Iteration entries
are additionally kept, unmodified, across the later calls of a case and must not change.
Constructors (every array-valued argument of archives, emitters, operators, gradient optimizers) and
ArrayStore.from_raw_dict are monitored entry points like the others: the constructed object joins the
case's world, so retention shows up both in the object graph and in later behaviour (centroids /
routing, what ask() emits on an empty archive, adds to the loaded and to the exporting store).
"""
import collections
import copy
import dataclasses
import itertools
import time
import warnings

import numpy as np

from core import Driver, Failure

ID = "C12"
PROOF_MODULES = ["PyribsProofs.C12"]

_ENTRY_DEFS = ("StoreAdd StoreRetrieve StoreData StoreIter StoreRaw XfBatch XfSingle XfObjSum XfBestIdx "
               "ValidateBatch ValidateSingle Add AddSingle Retrieve RetrieveSingle SampleElites BestElite "
               "Data Iter Cqd BufferAdd SbaAddSingle SbaAdd ProxAdd SchedTell SchedTellDqd BanditTell "
               "EsTell GaTell GaTellDqd GoTellDqd AdamStep AscentStep ParallelAxes HeatmapDf "
               "FromRaw CvtInit GridInit EmitterInit OptInit").split()
_NEG_DEFS = ("D7 D10 D10b D15 D19 D20 RetrieveSlice DataField AdamInplace AddKeeps XfWritesNew RawWrite "
             "D38cvt D38init D41 D36 ObjAsStored BestFromBatch TellDqdKeepsSolution CqdNoCopy").split()

THEOREMS = ([
    "Pyribs.C12.soundness",
    "Pyribs.C12.monitor_total",
    "Pyribs.C12.init_wf",
    "Pyribs.C12.entries_accepted",
    "Pyribs.C12.entry_safe",
    "Pyribs.C12.public_outputs_not_caller",
    "Pyribs.C12.negatives_rejected",
    "Pyribs.C12.D10_only_without_conversion",
    "Pyribs.C12.object_entries_only_object_branch",
    "Pyribs.C12.read_paths_agree",
    "Pyribs.C12.nonvacuous",
    "Pyribs.C12.read_paths_nonvacuous",
] + [f"Pyribs.C12.accepted_{n}" for n in _ENTRY_DEFS] + [f"Pyribs.C12.rejected_{n}" for n in _NEG_DEFS])

RULE = ("exhaustive enumeration of (entry point, argument layout in {python list, ndarray of exactly the stored "
        "dtype C-contiguous, view into a larger array, non-contiguous strided/transposed, other float dtype}, "
        "archive dtype in {float64, float32}, archive class / emitter class / scheduler class) x random callee "
        "states (prefix of adds / ask-tell rounds with random layouts); one stratum per entry-point family. Read "
        "paths (dict / tuple / single field / pandas columns in numerical order name_0..name_{m-1} / iteration / "
        "get_field / iterelites, element-wise against data()) are compared for every archive class and ArrayStore x "
        "dtype x three dimension profiles: solution_dim, measure_dim and the vector extra field range over 1..13, "
        "vectors of >= 11 components occur for every class and dtype in every run, all components of a vector are "
        "pairwise distinct; the strata archive.read, archive.iter and store also draw such dimensions. Object fields: "
        "archives and stores also come with `tags` ((2,), object: non-scalar entries), `meta` ((), object) holding "
        "payloads of several Python types (user class, dict, list, str) and object solutions via the dict form of "
        "dtype (crossed with class x dtype in archive.best_elite, archive.iter, readpaths; drawn elsewhere); object "
        "entries are compared by Python TYPE and value on every read path (incl. best_elite, retrieve, "
        "retrieve_single) and against what was submitted. Constructors: every array-valued constructor argument of "
        "the archives, emitters (incl. operator_kwargs) and gradient optimizers x layout x dtype, followed by adds / "
        "ask probes. ArrayStore.from_raw_dict from caller arrays (exact / view / strided) and from as_raw_dict() "
        "output, followed by adds to both stores. Scheduler hand-outs: (Scheduler / BanditScheduler) x every emitter "
        "class x {1, 2, 3} emitters x add_mode, ask / tell and ask_dqd / tell_dqd rounds; every array returned by "
        "ask / ask_dqd is checked against the object graph of emitters and archives and overwritten after the "
        "matching tell (all scheduler strata). ArrayStore.add with chains of 2..4 user transforms (pass-through "
        "transforms that use occupied / cur_data as scratch space, filters), kind of the first transform x layout x "
        "dtype. Iteration entries kept unmodified across later adds and re-read. "
        "One deterministic case for the open finding D40. A case "
        "is non-trivial when a monitored call receives at least one ndarray argument that np.asarray would not "
        "copy, or returns at least one array, on a non-empty callee state; counted once per distinct op list")
PARTIAL = [
    "the IR transcription of each entry point is written by hand from the source; it is tied to the code by the "
    "runtime alias monitor over the finite copy/view configuration space, not by a translator",
    "'with the declared dtypes' is checked at runtime only (the Store model is typed by construction)",
]
ASSUMPTIONS = [
    "NumPy semantics of the IR operations: asarray aliases iff no conversion is needed; basic slices, expand_dims, "
    "[None], .T, view() alias; fancy / boolean indexing, arithmetic, np.copy, astype allocate",
    "regions are atomic: any two views of one allocation are treated as overlapping",
    "geometry properties (centroids, boundaries, lower_bounds ...) are outside the property's list of outputs "
    "(DESIGN section 3) and are not flagged; of Scheduler.ask() / ask_dqd()'s return value only the reference the "
    "scheduler itself keeps until the matching tell is not flagged (see below)",
    "validate_batch rebinding add_info[name] = np.asarray(add_info[name]) in the caller's add_info dict keeps the "
    "values (a list entry becomes an equal ndarray) and is not counted as a mutation of a caller array",
    "geometry properties (lower_bounds, upper_bounds, dims, interval_size, boundaries, centroids, samples; "
    "ProximityArchive's cached bounds) and archive.dtypes hand out internal objects: outside the property's list "
    "of outputs, not flagged",
    "emitter.ask() / ask_dqd() called directly on an emitter return arrays the emitter may also keep, and the "
    "rankers' target_measure_dir setter keeps what it is given: not in the property's list, not flagged (these ask "
    "results are only used as probes of what a constructor kept). Scheduler.ask() / ask_dqd(): the scheduler keeps "
    "the returned array as the solutions of the open round (it is what tell() adds) -- that reference is not "
    "flagged; but the array must be writeable only if it shares no memory with anything reachable from the "
    "emitters or the archives, and overwriting it after the matching tell has returned must change nothing",
    "payload objects of object fields are stored and handed out by reference (the arrays holding them are "
    "copies); the monitor treats payloads as opaque values and checks their Python type and value on every read "
    "path against what was submitted",
    "IsoLineOperator's iso_sigma / line_sigma are documented as floats and are not given as arrays",
]
TRUSTED_EXTRA = [
    "hand-transcribed IR of each entry point (PyribsModel/Alias.lean), validated against the code by the runtime "
    "alias monitor",
    "the object-graph walk of the harness (what counts as reachable from the callee)",
]
TECHNIQUE = "Lean 4 proof (monitored ownership semantics, soundness + decide per entry point) + runtime alias monitor"
LEVEL_TEXT = ("soundness of the ownership monitor proved for every heap and data function; every transcribed entry "
              "point accepted in every branch by kernel evaluation; transcriptions tied to the code by the runtime "
              "alias monitor (exhaustive over layouts x dtypes)")

LAYOUTS = ["list", "exact", "view", "strided", "otherdtype"]
NOCOPY_LAYOUTS = ("exact", "view", "strided")
DTYPES = {"f64": np.float64, "f32": np.float32}
OTHER = {"f64": np.float32, "f32": np.float64}
GARBAGE = 777.25

# --------------------------------------------------------------------------
# caller arguments


class CallerArg:
    """One argument handed to pyribs, together with everything needed to checksum and trash it."""

    def __init__(self, name, obj, bases, layout):
        self.name = name
        self.obj = obj  # what is passed
        self.bases = bases  # ndarrays owning the memory (for a list: [])
        self.layout = layout

    def arrays(self):
        out = list(self.bases)
        if isinstance(self.obj, np.ndarray):
            out.append(self.obj)
        return out


def fp_array(a):
    """Fingerprint of an ndarray: bytes + dtype + shape + strides + flags."""
    a = np.asarray(a) if not isinstance(a, np.ndarray) else a
    if a.dtype == object:
        body = [_fp_obj(x) for x in a.ravel().tolist()]
    else:
        body = np.ascontiguousarray(a).tobytes()
    return (a.dtype.str, a.shape, a.strides, bool(a.flags.writeable), bool(a.flags.c_contiguous), body)


def fp_value(a):
    """Value fingerprint (no flags / strides): for observables."""
    if a is None:
        return None
    a = np.asarray(a)
    if a.dtype == object:
        return ("O", a.shape, [_fp_obj(x) for x in a.ravel().tolist()])
    return (a.dtype.str, a.shape, np.ascontiguousarray(a).tobytes())


PAYLOAD_MARK = "__c12_payload__"


class Payload:
    """User-class payload of an object field (never a tuple / list: NumPy would unpack those)."""

    def __init__(self, pid):
        self.pid = pid

    def __eq__(self, o):
        return isinstance(o, Payload) and o.pid == self.pid

    def __hash__(self):
        return hash(self.pid)

    def __repr__(self):
        return f"Payload({self.pid})"


def make_payload(kind, pid):
    """Payloads of several Python types; every one carries its id so that a stored entry can be traced back
    to what was submitted (dicts and lists are marked, so that the monitor treats them as opaque values)."""
    if kind == "obj":
        return Payload(pid)
    if kind == "dict":
        return {PAYLOAD_MARK: pid, "v": [pid, "x"]}
    if kind == "list":
        return [PAYLOAD_MARK, pid, pid + 1]
    return f"p{pid}"


def _marked_list(o):
    return isinstance(o, list) and len(o) > 0 and isinstance(o[0], str) and o[0] == PAYLOAD_MARK


def is_payload(o):
    return isinstance(o, Payload) or (isinstance(o, dict) and PAYLOAD_MARK in o) or _marked_list(o)


def payload_id(o):
    if isinstance(o, Payload):
        return o.pid
    if isinstance(o, dict) and PAYLOAD_MARK in o:
        return o[PAYLOAD_MARK]
    if _marked_list(o) and len(o) > 1:
        return o[1]
    if isinstance(o, str) and o[:1] == "p" and o[1:].isdigit():
        return int(o[1:])
    return None


def _fp_obj(x):
    """Typed fingerprint of a Python object (element of an object array, payload): the TYPE is part of it, so a
    list that comes back as an ndarray, or a dict wrapped into a 0-d array, is a difference -- while a value that
    is an instance of the submitted type and equal to it (np.str_ for str) is the same. No addresses."""
    # scalars: an instance of the Python type, equal in value, is the same value (np.str_ is a str, np.float64
    # is a float: NumPy hands those out when a row of a '<U' / float array is taken); NumPy scalars that are not
    # instances of a Python type keep their own type name
    if isinstance(x, str):
        return ("str", str(x))
    if isinstance(x, (bool, np.bool_)):
        return ("bool", bool(x))
    if isinstance(x, int):
        return ("int", int(x))
    if isinstance(x, float):
        return ("float", float(x).hex())
    if x is None or isinstance(x, np.generic):
        return (type(x).__name__, repr(x))
    if isinstance(x, Payload):
        return ("Payload", x.pid)
    if isinstance(x, np.ndarray):
        return ("ndarray",) + fp_value(x)
    if isinstance(x, dict):
        return ("dict", sorted((repr(k), _fp_obj(v)) for k, v in x.items()))
    if isinstance(x, (list, tuple)):
        return (type(x).__name__, [_fp_obj(v) for v in x])
    return f"<{type(x).__name__}>"


def fp_any(v):
    """Fingerprint of one entry as a read path presents it: arrays by dtype / shape / contents, anything else by
    Python type and value."""
    if isinstance(v, np.ndarray):
        return ("A",) + fp_value(v)
    return ("P", _fp_obj(v))


def make_array_arg(name, values, layout, exact_dtype, other_dtype, rng):
    """`values`: ndarray with the logical contents. Returns a CallerArg in the requested layout."""
    values = np.asarray(values)
    if layout == "list":
        return CallerArg(name, values.tolist(), [], layout)
    if layout == "exact":
        a = np.ascontiguousarray(values.astype(exact_dtype))
        if a.ndim == 0:
            a = np.array(a)
        return CallerArg(name, a, [], layout)
    if layout == "otherdtype":
        a = np.ascontiguousarray(values.astype(other_dtype))
        return CallerArg(name, a, [], layout)
    v = values.astype(exact_dtype)
    if layout == "view":
        # contiguous window of a larger buffer
        if v.ndim == 0:
            base = np.full(3, -5, dtype=exact_dtype)
            base[1] = v
            return CallerArg(name, base[1:2].reshape(()), [base], layout)
        base = np.full((v.shape[0] + 3,) + v.shape[1:], -5, dtype=exact_dtype)
        base[2:2 + v.shape[0]] = v
        return CallerArg(name, base[2:2 + v.shape[0]], [base], layout)
    if layout == "strided":
        if v.ndim >= 2 and rng.random() < 0.5:
            # transposed (Fortran order)
            base = np.full(v.shape[::-1], -5, dtype=exact_dtype)
            base[...] = v.T
            return CallerArg(name, base.T, [base], layout)
        base = np.full(tuple(2 * s + 1 for s in v.shape), -5, dtype=exact_dtype)
        sl = tuple(slice(1, 1 + 2 * s, 2) for s in v.shape)
        base[sl] = v
        return CallerArg(name, base[sl], [base], layout)
    raise ValueError(layout)


class DictArg(CallerArg):
    """A dict of arrays (add_info handed to an emitter)."""

    def __init__(self, name, parts):
        self.name = name
        self.parts = parts  # key -> CallerArg
        self.obj = {k: p.obj for k, p in parts.items()}
        self.bases = [b for p in parts.values() for b in p.arrays()]
        self.layout = next(iter(parts.values())).layout if parts else "list"

    def arrays(self):
        return list(self.bases)


class FrameArg(CallerArg):
    """A pandas data frame handed to a visualisation function."""

    def __init__(self, name, frame, layout):
        self.name = name
        self.obj = frame
        self.bases = []
        self.layout = layout

    def arrays(self):
        try:
            return [self.obj[c].to_numpy() for c in self.obj.columns]
        except Exception:  # pylint: disable=broad-except
            return []


def snap_arg(arg):
    if isinstance(arg, DictArg):
        out = {}
        for k, v in arg.obj.items():
            out[k] = ("A",) + fp_array(v) if isinstance(v, np.ndarray) else ("L", repr(np.asarray(v).tolist()))
        return ("dict", sorted(out.items()), [fp_array(b) for b in arg.bases])
    if isinstance(arg, FrameArg):
        df = arg.obj
        return ("frame", list(df.columns), [str(t) for t in df.dtypes], list(df.index),
                repr(df.to_numpy().tolist()), type(df).__name__)
    if isinstance(arg.obj, list):
        return ("list", repr(arg.obj))
    return ("arr", fp_array(arg.obj), [fp_array(b) for b in arg.bases])


def snap_arg_after(arg, before):
    """Like snap_arg, but a list entry of a dict that was rebound to an equal ndarray counts as unchanged."""
    if isinstance(arg, DictArg):
        out = {}
        prev = dict(before[1])
        for k, v in arg.obj.items():
            if prev.get(k, ("?",))[0] == "L" and isinstance(v, np.ndarray):
                out[k] = ("L", repr(v.tolist()))
            else:
                out[k] = ("A",) + fp_array(v) if isinstance(v, np.ndarray) else ("L", repr(np.asarray(v).tolist()))
        return ("dict", sorted(out.items()), [fp_array(b) for b in arg.bases])
    return snap_arg(arg)


def trash_list(x):
    for i, v in enumerate(x):
        if isinstance(v, list):
            trash_list(v)
        else:
            x[i] = GARBAGE


def trash_array(a):
    """Overwrite an ndarray in place; returns False if it is not writeable."""
    if not isinstance(a, np.ndarray) or not a.flags.writeable or a.size == 0:
        return False
    if a.dtype == object:
        a[...] = None
    elif a.dtype == bool:
        a[...] = ~a
    elif np.issubdtype(a.dtype, np.integer):
        a[...] = 7
    else:
        a[...] = GARBAGE
    return True


def trash_arg(arg):
    if isinstance(arg, DictArg):
        for p in arg.parts.values():
            trash_arg(p)
        for v in arg.obj.values():
            trash_array(v) if isinstance(v, np.ndarray) else (trash_list(v) if isinstance(v, list) else None)
        return
    if isinstance(arg, FrameArg):
        try:
            arg.obj.iloc[:, :] = 777
        except Exception:  # pylint: disable=broad-except
            pass
        return
    if isinstance(arg.obj, list):
        trash_list(arg.obj)
        return
    for b in arg.bases:
        trash_array(b)
    trash_array(arg.obj)


# --------------------------------------------------------------------------
# object graph of the callee

_SKIP_MODULES = ("numpy.random", "numba", "threading", "matplotlib")


def internal_arrays(roots, limit=20000, skip=()):
    """Every ndarray reachable from `roots` (list of (path, object)).

    Returns (list of (path, array), {id(container): path} for every dict / list / deque met).
    """
    out = []
    conts = {}
    seen = {id(x) for x in skip}
    stack = [(p, o) for p, o in roots][::-1]
    n = 0
    while stack:
        path, o = stack.pop()
        n += 1
        if n > limit:
            break
        if o is None or isinstance(o, (str, bytes, int, float, bool, complex, np.generic, type)):
            continue
        if id(o) in seen or is_payload(o):
            continue  # payloads of object fields are the user's opaque values, not part of the callee
        seen.add(id(o))
        if isinstance(o, np.ndarray):
            out.append((path, o))
            if o.dtype == object:
                for i, e in enumerate(o.ravel().tolist()):
                    stack.append((f"{path}[{i}]", e))
            continue
        if isinstance(o, dict):
            conts[id(o)] = path
            for k, v in list(o.items()):
                stack.append((f"{path}[{k!r}]", v))
            continue
        if isinstance(o, (list, tuple, collections.deque, set, frozenset)):
            if not isinstance(o, (tuple, frozenset)):
                conts[id(o)] = path
            for i, v in enumerate(list(o)):
                stack.append((f"{path}[{i}]", v))
            continue
        mod = type(o).__module__ or ""
        tname = type(o).__name__
        if tname == "cKDTree":
            for a in ("data", "indices", "mins", "maxes"):
                try:
                    stack.append((f"{path}.{a}", getattr(o, a)))
                except Exception:  # pylint: disable=broad-except
                    pass
            continue
        if tname == "SortedList":
            for i, v in enumerate(list(o)):
                stack.append((f"{path}[{i}]", v))
            continue
        if mod.startswith("pandas"):
            try:
                for c in o.columns:
                    stack.append((f"{path}[{c!r}]", o[c].to_numpy()))
            except Exception:  # pylint: disable=broad-except
                pass
            continue
        if any(mod.startswith(m) for m in _SKIP_MODULES) or callable(o) and not hasattr(o, "__dict__"):
            continue
        if callable(o) and type(o).__name__ in ("function", "builtin_function_or_method", "method", "CPUDispatcher"):
            continue
        d = getattr(o, "__dict__", None)
        if isinstance(d, dict):
            for k, v in list(d.items()):
                stack.append((f"{path}.{k}", v))
        if mod.startswith("ribs"):
            # mutable containers hoisted to the class: state that every instance of the class shares
            for cls in type(o).__mro__:
                if (cls.__module__ or "").startswith("ribs"):
                    for k, v in list(vars(cls).items()):
                        if not k.startswith("__") and isinstance(v, (dict, list, set, collections.deque,
                                                                     np.ndarray)):
                            stack.append((f"{path}.<class {cls.__name__}>.{k}", v))
        for k in getattr(type(o), "__slots__", ()) or ():
            if isinstance(k, str) and hasattr(o, k):
                stack.append((f"{path}.{k}", getattr(o, k)))
    return out, conts


def overlaps(a, b):
    if a.size == 0 or b.size == 0:
        return False
    if not np.may_share_memory(a, b):
        return False
    try:
        return bool(np.shares_memory(a, b, max_work=1_000_000))
    except Exception:  # pylint: disable=broad-except   (TooHardError: bounds overlap, undecided)
        return True


def rng_states(roots):
    """bit-generator states of every Generator directly held by the roots (one level)."""
    out = []
    for path, o in roots:
        for k, v in sorted(getattr(o, "__dict__", {}).items()):
            if isinstance(v, np.random.Generator):
                out.append((f"{path}.{k}", repr(v.bit_generator.state)))
    return out


# --------------------------------------------------------------------------
# returned values


def output_arrays(x, path="ret", depth=0):
    """(path, ndarray, container_is_writable) for every array inside a returned object.

    DataFrames are writable containers whatever the flag of the arrays they expose.
    """
    out = []
    if depth > 6 or x is None or is_payload(x):
        return out
    if isinstance(x, np.ndarray):
        out.append((path, x, bool(x.flags.writeable)))
        if x.dtype == object:
            for i, e in enumerate(x.ravel().tolist()):
                out += output_arrays(e, f"{path}[{i}]", depth + 1)
        return out
    if isinstance(x, dict):
        for k, v in x.items():
            out += output_arrays(v, f"{path}[{k!r}]", depth + 1)
        return out
    if isinstance(x, (list, tuple)):
        for i, v in enumerate(x):
            out += output_arrays(v, f"{path}[{i}]", depth + 1)
        return out
    if type(x).__module__.startswith("pandas") or type(x).__name__ == "ArchiveDataFrame":
        try:
            for c in x.columns:
                out.append((f"{path}[{c!r}]", x[c].to_numpy(), True))
        except Exception:  # pylint: disable=broad-except
            pass
        return out
    if dataclasses.is_dataclass(x) and not isinstance(x, type):
        for f in dataclasses.fields(x):
            out += output_arrays(getattr(x, f.name), f"{path}.{f.name}", depth + 1)
    return out


def trash_output(x, depth=0):
    """Overwrite everything writable inside a returned object (arrays in place, dict values replaced).
    Payload objects of object fields are left alone: they are the user's values, stored by reference."""
    if depth > 6 or x is None or is_payload(x):
        return
    if isinstance(x, np.ndarray):
        trash_array(x)
        return
    if isinstance(x, dict):
        for v in list(x.values()):
            trash_output(v, depth + 1)
        for k in list(x.keys()):
            x[k] = -12345
        x["__c12__"] = 1
        return
    if isinstance(x, list):
        for v in x:
            trash_output(v, depth + 1)
        for i in range(len(x)):
            x[i] = -12345
        return
    if isinstance(x, tuple):
        for v in x:
            trash_output(v, depth + 1)
        return
    if type(x).__module__.startswith("pandas") or type(x).__name__ == "ArchiveDataFrame":
        try:
            x.iloc[:, :] = 777
        except Exception:  # pylint: disable=broad-except
            pass
        return
    if dataclasses.is_dataclass(x) and not isinstance(x, type):
        for f in dataclasses.fields(x):
            trash_output(getattr(x, f.name), depth + 1)


# --------------------------------------------------------------------------
# worlds: the callee objects of a case

DEFAULT_DIMS = (3, 2, 2)  # solution_dim, measure_dim, length of the vector extra field `ex`
MAX_DIM = 13
ARCH_KINDS = ["grid", "grid_mae", "cvt", "cvt_brute", "sba", "prox", "prox_lc"]


def case_dims(case):
    """(solution_dim, measure_dim, extra-field length) of a case; every archive class supports 1..13 for each
    (grids use 2 cells per dimension once the measure space has more than 4 dimensions)."""
    d = case.get("dims")
    return tuple(int(x) for x in d) if d else DEFAULT_DIMS


def centroids(md):
    if md == 2:
        return np.array([[-0.75, -0.5], [-0.25, 0.5], [0.25, -0.25], [0.5, 0.75], [0.75, -0.75], [0.0, 0.0]])
    return np.random.default_rng(5).integers(-7, 8, (6, md)) / 8.0


def make_archive(kind, dt, case):
    from ribs.archives import CVTArchive, GridArchive, ProximityArchive, SlidingBoundariesArchive
    sd, md, xd = case_dims(case)
    extra = {"ex": ((xd,), dt)}
    obj = case.get("obj")
    if obj in ("fields", "both"):
        # object fields with NON-scalar entries (a writable view when indexed) and with scalar entries
        extra.update({"tags": ((2,), object), "meta": ((), object)})
    if obj in ("objsol", "both"):
        dt = {"solution": object, "objective": dt, "measures": dt}  # the documented dict form of `dtype`
    ranges = [(-1.0, 1.0)] * md
    seed = 11
    if kind in ("grid", "grid_mae"):
        kw = {"learning_rate": 0.5, "threshold_min": -10.0} if kind == "grid_mae" else {}
        return GridArchive(solution_dim=sd, dims=[4 if md <= 4 else 2] * md, ranges=ranges, dtype=dt,
                           extra_fields=extra, seed=seed, **kw)
    if kind in ("cvt", "cvt_brute"):
        cen = centroids(md)
        return CVTArchive(solution_dim=sd, cells=len(cen), ranges=ranges, dtype=dt,
                          custom_centroids=cen, use_kd_tree=(kind == "cvt"), extra_fields=extra,
                          seed=seed)
    if kind == "sba":
        return SlidingBoundariesArchive(solution_dim=sd, dims=[3 if md <= 4 else 2] * md, ranges=ranges, dtype=dt,
                                        remap_frequency=case.get("remap", 3), buffer_capacity=case.get("buf", 4),
                                        extra_fields=extra, seed=seed)
    if kind in ("prox", "prox_lc"):
        return ProximityArchive(solution_dim=sd, measure_dim=md, k_neighbors=2, novelty_threshold=0.3,
                                local_competition=(kind == "prox_lc"), initial_capacity=2, dtype=dt,
                                extra_fields=extra, seed=seed)
    raise ValueError(kind)


def make_emitter(spec, archive, k):
    from ribs.emitters import (EvolutionStrategyEmitter, GaussianEmitter, GradientArborescenceEmitter,
                               GradientOperatorEmitter, IsoLineEmitter)
    x0 = (np.array([0.25, -0.5, 0.125, 0.75, -0.125, 0.5, -0.75, 0.375, -0.25, 0.625, -0.375, 0.875, -0.625])
          [:archive.solution_dim])
    kind = spec["kind"]
    seed = 100 + k
    if kind == "gauss":
        return GaussianEmitter(archive, sigma=0.25, x0=x0, batch_size=3, seed=seed)
    if kind == "iso":
        return IsoLineEmitter(archive, x0=x0, batch_size=3, seed=seed)
    if kind == "genetic":
        from ribs.emitters import GeneticAlgorithmEmitter
        return GeneticAlgorithmEmitter(archive, operator="gaussian", x0=x0, batch_size=3,
                                       operator_kwargs={"sigma": 0.25, "seed": seed})
    if kind == "es":
        return EvolutionStrategyEmitter(archive, x0=x0, sigma0=0.5, ranker=spec.get("ranker", "2imp"),
                                        es=spec.get("es", "cma_es"),
                                        batch_size=3 if spec.get("es") == "lm_ma_es" else 4, seed=seed,
                                        restart_rule=spec.get("restart", "no_improvement"))
    if kind == "ga":
        return GradientArborescenceEmitter(archive, x0=x0, sigma0=0.5, lr=0.25, ranker=spec.get("ranker", "2imp"),
                                           grad_opt=spec.get("grad_opt", "adam"),
                                           normalize_grad=spec.get("normalize", True), batch_size=4, seed=seed,
                                           restart_rule=spec.get("restart", "no_improvement"))
    if kind == "go":
        return GradientOperatorEmitter(archive, sigma=0.125, sigma_g=0.25, x0=x0,
                                       measure_gradients=spec.get("measure_gradients", True),
                                       normalize_grad=spec.get("normalize", True), batch_size=3, seed=seed)
    raise ValueError(kind)


class World:

    def __init__(self, case):
        self.case = case
        self.dtname = case.get("dtype", "f64")
        self.dt = DTYPES[self.dtname]
        self.other = OTHER[self.dtname]
        self.kind = case.get("arch")
        self.dims = case_dims(case)
        self.obj = case.get("obj")
        self.has_tags = self.obj in ("fields", "both")
        self.objsol = self.obj in ("objsol", "both")
        self.registry = {}  # payload id -> typed fingerprint of the payload as submitted
        self.probe = []  # results of unmonitored probe calls (emitter.ask() ...), part of the observables
        self.monitored = False  # the world of a case that gets garbage written into everything it hands out
        self.handouts = []  # [label, array, told]: what Scheduler.ask() / ask_dqd() returned (monitored world)
        self.kept = []  # (label, entry, fingerprint): iteration entries the caller keeps across later calls
        self.store2 = None  # a store built by ArrayStore.from_raw_dict
        self.watch_geometry = any(op.get("op") == "construct" for op in case.get("ops", []))
        self.archive = make_archive(self.kind, self.dt, case) if self.kind else None
        self.store = None
        self.opt = None
        self.emitters = []
        self.sched = None
        if case.get("store"):
            from ribs.archives import ArrayStore
            desc = {"objective": ((), self.dt), "measures": ((self.dims[1],), self.dt),
                    "solution": ((self.dims[0],), object if self.objsol else self.dt)}
            if self.has_tags:
                desc.update({"tags": ((2,), object), "meta": ((), object)})
            self.store = ArrayStore(desc, 8)
        if case.get("opt"):
            from ribs.emitters.opt import AdamOpt, GradientAscentOpt
            theta0 = np.array([0.5, -0.25, 1.0], dtype=self.dt)
            self.opt = (AdamOpt(theta0, lr=0.125, l2_coeff=0.5) if case["opt"] == "adam" else
                        GradientAscentOpt(theta0, lr=0.125))
        for k, spec in enumerate(case.get("emitters", [])):
            self.emitters.append(make_emitter(spec, self.archive, k))
        if case.get("sched"):
            from ribs.schedulers import BanditScheduler, Scheduler
            mode = case.get("add_mode", "batch")
            if case["sched"] == "bandit":
                self.sched = BanditScheduler(self.archive, self.emitters, num_active=max(1, len(self.emitters) - 1),
                                             add_mode=mode)
            else:
                self.sched = Scheduler(self.archive, self.emitters, add_mode=mode)

    def roots(self):
        out = []
        if self.archive is not None:
            out.append(("archive", self.archive))
        if self.store is not None:
            out.append(("store", self.store))
        if self.store2 is not None:
            out.append(("store2", self.store2))
        if self.opt is not None:
            out.append(("opt", self.opt))
        for k, e in enumerate(self.emitters):
            out.append((f"emitter{k}", e))
        if self.sched is not None:
            out.append(("scheduler", self.sched))
        return out

    def observe(self):
        """Every observable of the callee, as value fingerprints."""
        o = {}
        if self.archive is not None:
            o["archive"] = obs_archive(self.archive, self.watch_geometry)
        if self.store is not None:
            o["store"] = obs_store(self.store)
        if self.store2 is not None:
            o["store2"] = obs_store(self.store2)
        if self.probe:
            o["probe"] = list(self.probe)
        roots = [r for r in self.roots() if r[0] not in ("archive", "store", "store2")]
        if roots:
            g = []
            # the archive / store is observed through its public read paths (unoccupied storage rows are
            # uninitialised memory), everything else through the arrays it holds
            skip = [x for x in (self.archive, self.store, self.store2) if x is not None]
            for path, a in internal_arrays(roots, skip=skip)[0]:
                g.append((path, fp_value(a)))
            o["graph"] = g
            o["rng"] = rng_states(roots)
        return o


def _hexf(x):
    return None if x is None else float(x).hex()


def obs_archive(a, geometry=False):
    d = a.data()
    o = {"len": len(a), "data": {k: fp_value(v) for k, v in d.items()}}
    st = a.stats
    o["stats"] = (int(st.num_elites), _hexf(st.coverage), _hexf(st.qd_score), _hexf(st.norm_qd_score),
                  _hexf(st.obj_max), _hexf(st.obj_mean))
    be = a.best_elite
    o["best"] = None if be is None else sorted((str(k), fp_any(v)) for k, v in be.items())
    cls = type(a).__name__
    if cls == "SlidingBoundariesArchive":
        o["boundaries"] = [fp_value(b) for b in a.boundaries]
        o["buffer"] = int(a._buffer.size)  # pylint: disable=protected-access
    if not geometry:
        return o
    # geometry and routing: what a constructor argument kept by reference would change
    geo = {}
    for name in ("lower_bounds", "upper_bounds", "centroids", "samples", "dims"):
        if cls == "ProximityArchive" and name in ("lower_bounds", "upper_bounds"):
            continue  # cached properties of the contents (they raise while the archive is empty)
        v = getattr(a, name, None)
        if isinstance(v, np.ndarray):
            geo[name] = fp_value(v)
    if cls == "GridArchive":
        geo["boundaries"] = [fp_value(b) for b in a.boundaries]
    if cls != "ProximityArchive":
        md = a.measure_dim
        probe = (np.arange(5 * md).reshape(5, md) % 7 - 3) / 4.0
        geo["route"] = fp_value(a.index_of(probe))
    o["geometry"] = geo
    return o


def obs_store(s):
    d = s.data()
    return {"len": len(s), "data": {k: fp_value(v) for k, v in d.items()},
            "occupied": fp_value(np.asarray(s.occupied)), "olist": fp_value(np.asarray(s.occupied_list))}


def diff_keys(a, b, pre=""):
    """Names of the observables that differ."""
    out = []
    if isinstance(a, dict) and isinstance(b, dict):
        for k in sorted(set(a) | set(b), key=str):
            if k not in a or k not in b:
                out.append(f"{pre}{k}")
            elif a[k] != b[k]:
                out += diff_keys(a[k], b[k], f"{pre}{k}.")
        return out
    if isinstance(a, list) and isinstance(b, list) and len(a) == len(b) and a and isinstance(a[0], tuple):
        for x, y in zip(a, b):
            if x != y:
                out.append(f"{pre}{x[0]}")
        return out
    return [pre.rstrip(".")] if a != b else []


# --------------------------------------------------------------------------
# calls


class Call:
    """One monitored public call."""

    def __init__(self, name, lean, bits, args, invoke, is_iter=False, out_alias_ok=False, must_succeed=False,
                 frozen=(), graph_roots=None, handout=None, post=None):
        self.handout = handout  # label of a result the callee keeps until the matching tell (Scheduler.ask ...)
        self.post = post  # extra check after the call: () -> Failure | None
        self.must_succeed = must_succeed  # an exception raised by this call is itself a failure
        self.frozen = frozen  # keys of World.observe() this call must leave unchanged
        self.graph_roots = graph_roots  # roots of the callee for this call (default: the whole world)
        self.name = name  # e.g. GridArchive.add
        self.lean = lean  # name of the IR transcription (None: nothing to tie, e.g. EmitterBase.tell)
        self.bits = bits  # list of ("a", argname, conv) | ("b",) | ("f", bool)
        self.args = args
        self.invoke = invoke
        self.is_iter = is_iter
        self.out_alias_ok = out_alias_ok


def gen_rows(seed, n, dims=DEFAULT_DIMS):
    """Row values of a batch, all dyadic (exact in float32). Within one row all components of a vector
    field are pairwise distinct, so that a permutation of the components is visible."""
    sd, md, xd = dims
    r = np.random.default_rng(seed)

    def distinct(lo, hi, k):
        return np.stack([r.permutation(np.arange(lo, hi))[:k] for _ in range(n)]).reshape(n, k) if n else \
            np.zeros((0, k))

    sol = distinct(-64, 64, sd) / 64.0
    obj = r.integers(-16, 16, n) / 4.0
    meas = distinct(-63, 63, md) / 64.0
    ex = distinct(0, 100, xd).astype(np.float64)
    return sol, obj, meas, ex


def lay_of(op, name):
    lay = op.get("layout", "exact")
    if name.startswith("add_info["):
        name = "add_info"
    return lay.get(name, "exact") if isinstance(lay, dict) else lay


def mk(w, op, name, values, salt=0, exact=None, other=None):
    import random as _random
    r = _random.Random(op.get("seed", 0) * 31 + salt)
    return make_array_arg(name, values, lay_of(op, name), exact or w.dt, other or w.other, r)


def archive_cls(w):
    return type(w.archive).__name__


PAYLOAD_KINDS = ("obj", "dict", "list", "str")


def obj_values(w, op, n, allow_list=True):
    """Values of the object-typed arguments of a batch of n rows: `tags` (n, 2) with non-scalar entries
    [Payload, str], `meta` (n,) holding payloads of several Python types (a list payload can only travel
    inside an object ndarray through a batch add), and -- for an object solution dtype -- `solution`
    (n, solution_dim) of pairwise distinct strings. Every payload is registered under its id."""
    base = (op["seed"] % 100000) * 16
    tags = np.empty((n, 2), dtype=object)
    meta = np.empty(n, dtype=object)
    sol = np.empty((n, w.dims[0]), dtype=object)
    for i in range(n):
        pid = base + i
        kind = PAYLOAD_KINDS[(op["seed"] + i) % 4]
        if kind == "list" and not allow_list:
            kind = "dict"
        meta[i] = make_payload(kind, pid)
        tags[i, 0] = Payload(pid)
        tags[i, 1] = f"t{pid}"
        for j in range(w.dims[0]):
            sol[i, j] = f"s{pid}_{j}"
        w.registry[pid] = _fp_obj(meta[i])
    return tags, meta, sol


def list_ok(w, op, name):
    """May a list payload be used for `name` in this call? Not through python-list arguments (NumPy would
    unpack it), not through the SlidingBoundariesArchive (its batch add goes through add_single)."""
    return w.kind != "sba" and lay_of(op, name) != "list"


def calls_add(w, op):
    sol, obj, meas, ex = gen_rows(op["seed"], op["n"], w.dims)
    a = [mk(w, op, "solution", sol, 1), mk(w, op, "objective", obj, 2), mk(w, op, "measures", meas, 3),
         mk(w, op, "ex", ex, 4)]
    abits = [("a", "solution", False), ("a", "objective", True), ("a", "measures", True), ("a", "ex", False)]
    if w.kind == "sba":
        lean, bits = "SlidingBoundariesArchive.add", abits + [("b",), ("b",)]
    elif w.kind in ("prox", "prox_lc"):
        lean, bits = "ProximityArchive.add", abits + [("f", w.kind == "prox_lc"), ("b",), ("b",)]
    else:
        lean, bits = "ArchiveBase.add", abits + [("f", w.kind == "grid_mae"), ("b",)]
    kw = {}
    if w.obj:
        tags, meta, osol = obj_values(w, op, op["n"], allow_list=list_ok(w, op, "meta"))
        if w.objsol:
            a[0] = mk(w, op, "solution", osol, 1, exact=object, other=np.dtype("<U24"))
        if w.has_tags:
            a += [mk(w, op, "tags", tags, 9, exact=object, other=object),
                  mk(w, op, "meta", meta, 10, exact=object, other=object)]
            kw = {"tags": a[4].obj, "meta": a[5].obj}
    yield Call(f"{archive_cls(w)}.add", lean, bits, a,
               lambda: w.archive.add(a[0].obj, a[1].obj, a[2].obj, ex=a[3].obj, **kw))


def calls_add_single(w, op):
    sol, obj, meas, ex = gen_rows(op["seed"], 1, w.dims)
    a = [mk(w, op, "solution", sol[0], 1), mk(w, op, "measures", meas[0], 3), mk(w, op, "ex", ex[0], 4)]
    if w.kind == "sba":
        lean, bits = "SlidingBoundariesArchive.add_single", [("a", "solution", False), ("a", "measures", True),
                                                              ("b",), ("b",), ("b",)]
    elif w.kind in ("prox", "prox_lc"):
        # add_single wraps every value in a list: every asarray converts
        lean, bits = "ProximityArchive.add", [("f", True)] * 4 + [("f", w.kind == "prox_lc"), ("b",), ("b",)]
    else:
        lean, bits = "ArchiveBase.add_single", [("a", "solution", False), ("a", "measures", True), ("b",)]
    kw = {}
    if w.obj:
        tags, meta, osol = obj_values(w, op, 1, allow_list=False)
        if w.objsol:
            a[0] = mk(w, op, "solution", osol[0], 1, exact=object, other=np.dtype("<U24"))
        if w.has_tags:
            a.append(mk(w, op, "tags", tags[0], 9, exact=object, other=object))
            kw = {"tags": a[3].obj, "meta": meta[0]}
    yield Call(f"{archive_cls(w)}.add_single", lean, bits, a,
               lambda: w.archive.add_single(a[0].obj, float(obj[0]), a[1].obj, ex=a[2].obj, **kw))


def calls_retrieve(w, op):
    _, _, meas, _ = gen_rows(op["seed"], op.get("n", 3), w.dims)
    if op["op"] == "retrieve":
        a = [mk(w, op, "measures", meas, 3)]
        yield Call(f"{archive_cls(w)}.retrieve", "ArchiveBase.retrieve", [("a", "measures", False)], a,
                   lambda: w.archive.retrieve(a[0].obj))
    else:
        a = [mk(w, op, "measures", meas[0], 3)]
        yield Call(f"{archive_cls(w)}.retrieve_single", "ArchiveBase.retrieve_single", [("a", "measures", False)], a,
                   lambda: w.archive.retrieve_single(a[0].obj))


def calls_sample(w, op):
    yield Call(f"{archive_cls(w)}.sample_elites", "ArchiveBase.sample_elites", [], [],
               lambda: w.archive.sample_elites(op.get("n", 3)))


def calls_best(w, op):
    yield Call(f"{archive_cls(w)}.best_elite", "ArchiveBase.best_elite", [], [], lambda: w.archive.best_elite)


def data_kwargs(op):
    rt = op.get("rt", "dict")
    if rt == "single":
        return {"fields": op.get("field", "solution")}
    if rt.startswith("fields:"):
        return {"fields": ["measures", "index", "objective"], "return_type": rt.split(":")[1]}
    return {"return_type": rt}


def calls_data(w, op):
    kw = data_kwargs(op)
    yield Call(f"{archive_cls(w)}.data({op.get('rt', 'dict')})", "ArchiveBase.data", [("b",)], [],
               lambda: w.archive.data(**kw))


def calls_iter(w, op):
    if w.store is not None and w.archive is None:
        yield Call("ArrayStore.__iter__", "ArrayStore.__iter__", [], [], lambda: iter(w.store), is_iter=True)
    else:
        yield Call(f"{archive_cls(w)}.__iter__", "ArchiveBase.__iter__", [], [], lambda: iter(w.archive),
                   is_iter=True)


def calls_cqd(w, op):
    r = np.random.default_rng(op["seed"])
    tp = r.integers(-8, 8, (2, 3, w.dims[1])) / 8.0
    pen = np.array([0.0, 0.5, 1.0])
    a = [mk(w, op, "target_points", tp, 5, exact=np.float64, other=np.float32),
         mk(w, op, "penalties", pen, 6, exact=np.float64, other=np.float32)]
    kw = {"dist_ord": op.get("ord")}
    if op.get("dist") != "default" or w.kind in ("prox", "prox_lc"):
        kw["dist_max"] = 2.0  # ProximityArchive has no fixed bounds: dist_max must be given
    yield Call(f"{archive_cls(w)}.cqd_score", "ArchiveBase.cqd_score", [], a,
               lambda: w.archive.cqd_score(2, a[0].obj, a[1].obj, obj_min=-4.0, obj_max=4.0, **kw))


# ---- ArrayStore


def calls_store_add(w, op):
    sol, obj, meas, _ = gen_rows(op["seed"], op["n"], w.dims)
    r = np.random.default_rng(op["seed"] + 1)
    idx = r.integers(0, 8, op["n"])
    a = [mk(w, op, "indices", idx, 7, exact=np.int32, other=np.int64), mk(w, op, "objective", obj, 2),
         mk(w, op, "measures", meas, 3), mk(w, op, "solution", sol, 1)]
    bits = [("a", "indices", True), ("a", "measures", False), ("a", "objective", False), ("b",)]
    data = {"objective": a[1].obj, "measures": a[2].obj, "solution": a[3].obj}
    if w.obj:
        tags, meta, osol = obj_values(w, op, op["n"], allow_list=lay_of(op, "meta") != "list")
        if w.objsol:
            a[3] = mk(w, op, "solution", osol, 1, exact=object, other=np.dtype("<U24"))
            data["solution"] = a[3].obj
        if w.has_tags:
            a += [mk(w, op, "tags", tags, 9, exact=object, other=object),
                  mk(w, op, "meta", meta, 10, exact=object, other=object)]
            data.update({"tags": a[4].obj, "meta": a[5].obj})
    target = w.store2 if op.get("target") == "store2" else w.store
    yield Call("ArrayStore.add" + ("(loaded store)" if op.get("target") == "store2" else ""), "ArrayStore.add", bits, a,
               lambda: target.add(a[0].obj, data, {}, []), must_succeed=bool(op.get("must")),
               frozen=tuple(op.get("frozen", ())))


def calls_store_retrieve(w, op):
    r = np.random.default_rng(op["seed"] + 1)
    idx = r.integers(0, 8, op.get("n", 4))
    a = [mk(w, op, "indices", idx, 7, exact=np.int32, other=np.int64)]
    fields = {"all": None, "one": "measures", "some": ["solution", "index", "objective"]}[op.get("sel", "all")]
    rt = op.get("rt", "dict")
    yield Call(f"ArrayStore.retrieve({rt},{op.get('sel', 'all')})", "ArrayStore.retrieve", [("a", "indices", True)], a,
               lambda: w.store.retrieve(a[0].obj, fields, rt))


def calls_store_data(w, op):
    rt = op.get("rt", "dict")
    fields = {"all": None, "one": "measures", "some": ["solution", "index", "objective"]}[op.get("sel", "all")]
    yield Call(f"ArrayStore.data({rt},{op.get('sel', 'all')})", "ArrayStore.data", [("b",)], [],
               lambda: w.store.data(fields, rt))


def calls_store_raw(w, op):
    yield Call("ArrayStore.as_raw_dict", "ArrayStore.as_raw_dict", [], [], lambda: w.store.as_raw_dict())


# ---- ArrayStore.add with a chain of user transforms

XF_KINDS = ("stat", "improve", "keep_better")
# stat:        passes indices / new_data through unchanged (the same objects), reports statistics of what the
#              store holds at the indices (from occupied / cur_data) in add_info
# improve:     passes indices / new_data through unchanged; computes `new objective - stored objective` IN PLACE
#              in its cur_data["objective"] (its own copy -> scratch space, like the shipped transforms do with
#              cur_threshold / cur_objective) and reports a copy in add_info
# keep_better: keeps the rows that go to an unoccupied index or beat the stored objective; returns the indices
#              object it was given when every row is kept, a filtered copy otherwise


def make_transform(w, kind, j, log):
    """Transform number j of a chain. Every transform records what it was handed (`log`: the objects, for the
    structural check after the call; w.probe: the values, so that they are part of what the twins must agree
    on). In the monitored world every transform finally overwrites occupied / cur_data (they are documented as
    'same as that given by retrieve()', i.e. the transform's own copies)."""

    def transform(indices, new_data, add_info, extra_args, occupied, cur_data):
        st = w.store
        occ_now, cur_now = st.retrieve(indices)
        # rows of unoccupied indices are uninitialised storage: only the rows of occupied indices are compared
        m = np.array(occ_now, dtype=bool)
        seen = (fp_value(occupied), sorted((k, fp_value(v if k == "index" or len(v) != len(m) else v[m]))
                                            for k, v in cur_data.items()))
        want = (fp_value(occ_now), sorted((k, fp_value(v if k == "index" else v[m])) for k, v in cur_now.items()))
        log.append({"j": j, "kind": kind, "occupied": occupied, "cur_data": cur_data, "indices": indices,
                    "stale": seen != want})
        w.probe.append(("transform", j, kind, fp_value(indices), seen))
        new_obj = np.asarray(new_data["objective"])
        occ = np.array(occupied, dtype=bool)
        if kind == "stat":
            add_info[f"n_occupied_{j}"] = int(occ.sum())
            add_info[f"stored_objective_{j}"] = np.where(occ, cur_data["objective"], 0)
            out = indices, new_data, add_info
        elif kind == "improve":
            diff = cur_data["objective"]  # the transform's copy: used as scratch space
            diff[~occ] = 0
            np.subtract(new_obj, diff, out=diff)
            add_info[f"improvement_{j}"] = diff.copy()
            out = indices, new_data, add_info
        else:
            keep = ~occ | (new_obj > cur_data["objective"])
            add_info[f"kept_{j}"] = keep.copy()
            if keep.all():
                out = indices, new_data, add_info
            else:
                out = indices[keep], {k: np.asarray(v)[keep] for k, v in new_data.items()}, add_info
        if w.monitored:
            trash_array(occupied)
            for v in cur_data.values():
                trash_array(v)
        return out

    return transform


def chain_post(w, log, where_store):
    """Structural part of the chain oracle: what transform j is handed is (by value) what retrieve() gives at
    that moment, shares no memory with what an earlier transform was handed, and -- when writeable -- shares
    no memory with the store."""

    def post():
        ints = None
        for n, e in enumerate(log):
            label = f"transform #{e['j']} ({e['kind']}) of the chain {[x['kind'] for x in log]}"
            mine = [("occupied", e["occupied"])] + [(f"cur_data[{k!r}]", v) for k, v in e["cur_data"].items()]
            for p in log[:n]:
                if p["cur_data"] is e["cur_data"]:
                    return Failure("oracle", f"ArrayStore.add: {label} was handed the very cur_data dict that "
                                   f"transform #{p['j']} ({p['kind']}) was handed (not a copy)")
                theirs = [("occupied", p["occupied"])] + [(f"cur_data[{k!r}]", v) for k, v in p["cur_data"].items()]
                for na, a in mine:
                    for nb, b in theirs:
                        if isinstance(a, np.ndarray) and isinstance(b, np.ndarray) and overlaps(a, b):
                            return Failure("oracle", f"ArrayStore.add: {na} handed to {label} shares memory with "
                                           f"{nb} handed to transform #{p['j']} ({p['kind']}): not a copy")
            if e["stale"]:
                return Failure("oracle", f"ArrayStore.add: {label} was handed occupied / cur_data that differ "
                               "from what retrieve(indices) returns at that moment")
            if ints is None:
                ints = internal_arrays([(where_store, w.store)])[0]
            for na, a in mine:
                if isinstance(a, np.ndarray) and a.flags.writeable:
                    for path, ia in ints:
                        if overlaps(a, ia):
                            return Failure("oracle", f"ArrayStore.add: {na} handed to {label} is a writeable "
                                           f"alias of internal {path}")
        return None

    return post


def calls_store_chain(w, op):
    """`ArrayStore.add(indices, new_data, extra_args, transforms)` with a chain of >= 2 user transforms."""
    sol, obj, meas, _ = gen_rows(op["seed"], op["n"], w.dims)
    r = np.random.default_rng(op["seed"] + 1)
    idx = r.integers(0, 8, op["n"])
    a = [mk(w, op, "indices", idx, 7, exact=np.int32, other=np.int64), mk(w, op, "objective", obj, 2),
         mk(w, op, "measures", meas, 3), mk(w, op, "solution", sol, 1)]
    bits = [("a", "indices", True), ("a", "measures", False), ("a", "objective", False), ("b",)]
    data = {"objective": a[1].obj, "measures": a[2].obj, "solution": a[3].obj}
    if w.obj:
        tags, meta, osol = obj_values(w, op, op["n"], allow_list=lay_of(op, "meta") != "list")
        if w.objsol:
            a[3] = mk(w, op, "solution", osol, 1, exact=object, other=np.dtype("<U24"))
            data["solution"] = a[3].obj
        if w.has_tags:
            a += [mk(w, op, "tags", tags, 9, exact=object, other=object),
                  mk(w, op, "meta", meta, 10, exact=object, other=object)]
            data.update({"tags": a[4].obj, "meta": a[5].obj})
    log = []
    chain = [make_transform(w, k, j, log) for j, k in enumerate(op["chain"])]
    if w.monitored:
        count(f"chain:length={len(chain)}")
        count("chain:first=" + op["chain"][0])

    def post():
        if any(x["kind"] != "keep_better" for x in log[:-1]) and len(log) >= 2:
            count("chain:pass-through-transform-followed-by-another")
        return chain_post(w, log, "store")()

    yield Call(f"ArrayStore.add(transforms={'+'.join(op['chain'])})", "ArrayStore.add", bits, a,
               lambda: w.store.add(a[0].obj, data, {}, chain), post=post)


# ---- ArrayStore.from_raw_dict


def calls_from_raw(w, op):
    """`ArrayStore.from_raw_dict(d)`: d built from writable arrays of the caller (layouts exact / view /
    strided), or d = as_raw_dict() of a live store (read-only views of that store). Afterwards the loaded
    store and the exporting store must be two working stores that share nothing."""
    import random as _random
    from ribs.archives import ArrayStore
    raw = w.store.as_raw_dict()
    readonly = op.get("src") == "readonly"
    r = _random.Random(op["seed"])
    args, d = [], {}
    for k, v in raw.items():
        if isinstance(v, np.ndarray):
            if readonly:
                arg = CallerArg(f"d[{k!r}]", v, [], "view")
            else:
                lay = op.get("layout", "exact")
                arg = make_array_arg(f"d[{k!r}]", np.array(v), lay if lay in NOCOPY_LAYOUTS else "exact", v.dtype,
                                     v.dtype, r)
            args.append(arg)
            d[k] = arg.obj
        else:
            d[k] = v

    def invoke():
        w.store2 = ArrayStore.from_raw_dict(d)

    yield Call("ArrayStore.from_raw_dict" + ("(as_raw_dict())" if readonly else ""), "ArrayStore.from_raw_dict", [],
               args, invoke, must_succeed=True, graph_roots=lambda: [("store2", w.store2)])
    yield from calls_store_add(w, {"op": "store_add", "n": 2, "seed": op["seed"] + 1, "layout": "exact",
                                   "target": "store2", "must": True, "frozen": ["store"]})
    yield from calls_store_add(w, {"op": "store_add", "n": 2, "seed": op["seed"] + 2, "layout": "exact",
                                   "must": True, "frozen": ["store2"]})


# ---- constructors

CTOR_ARGS = {
    "cvt": ["custom_centroids", "samples", "ranges"],
    "grid": ["ranges", "dims"],
    "sba": ["ranges", "dims"],
    "gauss": ["sigma", "x0", "initial_solutions", "bounds"],
    "iso": ["x0", "initial_solutions", "bounds"],
    "genetic": ["x0", "initial_solutions", "bounds", "operator_kwargs.sigma"],
    "go": ["sigma", "x0", "initial_solutions", "bounds"],
    "es": ["x0", "bounds"],
    "ga": ["x0"],  # (this emitter rejects bounds)
    "adam": ["theta0"],
    "ascent": ["theta0"],
}
CTOR_LEAN = {"cvt": "CVTArchive.__init__", "grid": "GridArchive.__init__", "sba": "GridArchive.__init__",
             "adam": "GradientOpt.__init__", "ascent": "GradientOpt.__init__"}


def calls_construct(w, op):
    """A constructor with ONE array-valued argument in the case's layout (every other argument is a python
    value). The constructed object joins the world, so the later ops of the case run against it."""
    from ribs.archives import CVTArchive, GridArchive, SlidingBoundariesArchive
    from ribs.emitters import (EvolutionStrategyEmitter, GaussianEmitter, GeneticAlgorithmEmitter,
                               GradientArborescenceEmitter, GradientOperatorEmitter, IsoLineEmitter)
    from ribs.emitters.opt import AdamOpt, GradientAscentOpt
    target, argname = op["target"], op["arg"]
    sd, md, xd = w.dims
    r = np.random.default_rng(op["seed"])
    ints = (np.int32, np.int64)
    values = {
        "custom_centroids": lambda: np.stack([r.permutation(np.arange(-7, 8))[:md] for _ in range(6)]) / 8.0,
        "samples": lambda: r.integers(-32, 33, (40, md)) / 32.0,
        "ranges": lambda: np.array([(-1.0, 1.0)] * md),
        "dims": lambda: np.array([4 if md <= 4 else 2] * md),
        "sigma": lambda: r.integers(1, 9, sd) / 16.0,
        "operator_kwargs.sigma": lambda: r.integers(1, 9, sd) / 16.0,
        "x0": lambda: r.integers(-8, 9, sd) / 16.0,
        "theta0": lambda: r.integers(-8, 9, sd) / 16.0,
        "initial_solutions": lambda: r.integers(-16, 17, (3, sd)) / 16.0,
        "bounds": lambda: np.array([(-2.0, 2.0)] * sd),
    }
    vals = values[argname]()
    exact, other = (ints if argname == "dims" else (w.dt, w.other))
    arg = mk(w, op, argname, vals, 11, exact=exact, other=other)
    a = [arg]
    x0 = (np.arange(sd) % 5 - 2) / 8.0
    extra = {"ex": ((xd,), w.dt)}
    seed = 40 + len(w.emitters)

    def pick(name, default):
        return arg.obj if argname == name else default

    def start():
        """x0 / initial_solutions: exactly one of them is given."""
        if argname == "initial_solutions":
            return {"initial_solutions": arg.obj}
        return {"x0": pick("x0", x0.tolist())}

    def invoke():
        if target in ("cvt", "grid", "sba"):
            kw = {"solution_dim": sd, "dtype": w.dt, "extra_fields": extra, "seed": 11,
                  "ranges": pick("ranges", [(-1.0, 1.0)] * md)}
            if target == "cvt":
                if argname == "samples":
                    kw["samples"] = arg.obj
                else:
                    kw["custom_centroids"] = pick("custom_centroids", centroids(md).tolist())
                w.archive = CVTArchive(cells=6, **kw)
            elif target == "grid":
                w.archive = GridArchive(dims=pick("dims", [4 if md <= 4 else 2] * md), **kw)
            else:
                w.archive = SlidingBoundariesArchive(dims=pick("dims", [3 if md <= 4 else 2] * md),
                                                     remap_frequency=3, buffer_capacity=4, **kw)
            w.kind = target
            return
        if target in ("adam", "ascent"):
            w.opt = AdamOpt(arg.obj, lr=0.125, l2_coeff=0.5) if target == "adam" else GradientAscentOpt(arg.obj, 0.125)
            return
        ar, bounds = w.archive, pick("bounds", None)
        if target == "gauss":
            e = GaussianEmitter(ar, sigma=pick("sigma", 0.25), bounds=bounds, batch_size=3, seed=seed, **start())
        elif target == "iso":
            e = IsoLineEmitter(ar, bounds=bounds, batch_size=3, seed=seed, **start())
        elif target == "genetic":
            e = GeneticAlgorithmEmitter(ar, operator="gaussian", bounds=bounds, batch_size=3,
                                        operator_kwargs={"sigma": pick("operator_kwargs.sigma", 0.25), "seed": seed},
                                        **start())
        elif target == "go":
            e = GradientOperatorEmitter(ar, sigma=pick("sigma", 0.125), sigma_g=0.25, bounds=bounds, batch_size=3,
                                        seed=seed, **start())
        elif target == "es":
            e = EvolutionStrategyEmitter(ar, x0=pick("x0", x0.tolist()), sigma0=0.5, bounds=bounds, batch_size=4,
                                         seed=seed)
        else:
            e = GradientArborescenceEmitter(ar, x0=pick("x0", x0.tolist()), sigma0=0.5, lr=0.25, bounds=bounds,
                                            batch_size=4, seed=seed)
        w.emitters.append(e)

    cls = {"cvt": "CVTArchive", "grid": "GridArchive", "sba": "SlidingBoundariesArchive", "gauss": "GaussianEmitter",
           "iso": "IsoLineEmitter", "genetic": "GeneticAlgorithmEmitter", "go": "GradientOperatorEmitter",
           "es": "EvolutionStrategyEmitter", "ga": "GradientArborescenceEmitter", "adam": "AdamOpt",
           "ascent": "GradientAscentOpt"}[target]
    lean_name = CTOR_LEAN.get(target, "Emitter.__init__")
    bits = {"CVTArchive.__init__": [("f", argname == "samples")],
            "Emitter.__init__": [("f", argname == "initial_solutions")]}.get(lean_name, [])
    yield Call(f"{cls}({argname}=...)", lean_name, bits, a, invoke, must_succeed=True)


def calls_ask_probe(w, op):
    """Unmonitored: what the emitters emit now (ask / ask_dqd are not in the property's list of outputs, but
    what they return must not depend on arrays the caller changed after handing them to a constructor)."""
    for e in w.emitters:
        for meth in ("ask_dqd", "ask"):
            try:
                w.probe.append((type(e).__name__, meth, fp_value(np.array(getattr(e, meth)()))))
            except Exception as ex:  # pylint: disable=broad-except   (e.g. ask() before tell_dqd())
                w.probe.append((type(e).__name__, meth, type(ex).__name__))
    return
    yield  # pylint: disable=unreachable   (a generator with no monitored call)


# ---- known finding D40 (one deterministic case)


def check_d40():
    from ribs.archives import GridArchive
    a = GridArchive(solution_dim=2, dims=[4], ranges=[(0, 1)], extra_fields={"stage_2": ((), np.float64)})
    a.add_single([1.0, 2.0], 1.0, [0.3], stage_2=7.5)
    df = a.data(return_type="pandas")
    rows = list(df.iterelites())
    ghost = df.get_field("stage")
    ok = len(rows) == 1 and "stage_2" in rows[0] and "stage" not in rows[0] and \
        not isinstance(rows[0]["stage_2"], np.ndarray) and float(rows[0]["stage_2"]) == 7.5 and ghost is None
    if ok:
        return None
    return Failure("oracle", "GridArchive(solution_dim=2, dims=[4], ranges=[(0,1)], extra_fields={'stage_2': ((), "
                   "np.float64)}) after add_single([1.,2.], 1.0, [0.3], stage_2=7.5): "
                   f"data(return_type='pandas').iterelites() yields keys {sorted(rows[0].keys()) if rows else None} "
                   f"(scalar field 'stage_2' presented as {rows[0].get('stage', rows[0].get('stage_2'))!r}) and "
                   f"get_field('stage') returns {None if ghost is None else ghost.tolist()} for a field that does not "
                   "exist; dict / tuple / single-field / iteration present 'stage_2' = 7.5",
                   key="D40-field-name-digit-suffix")


# ---- schedulers and emitters


def eval_values(seed, n, dims=DEFAULT_DIMS):
    sol, obj, meas, ex = gen_rows(seed, n, dims)
    r = np.random.default_rng(seed + 7)
    jac = r.integers(-8, 9, (n, dims[1] + 1, dims[0])) / 4.0
    jac[jac == 0] = 0.5  # no zero rows: norms stay away from 0
    return obj, meas, ex, jac


def sched_name(w):
    return type(w.sched).__name__


DQD_EMITTERS = ("GradientArborescenceEmitter", "GradientOperatorEmitter")


def handout_roots(w):
    """What an array handed out by Scheduler.ask() / ask_dqd() must share nothing with: everything reachable
    from the emitters and the archives. (The scheduler itself keeps the array as the solutions of the open
    round, up to the matching tell; that reference is the scheduler's documented protocol, not a finding.)"""
    out = [("archive", w.archive)] + [(f"emitter{k}", e) for k, e in enumerate(w.emitters)]
    ra = getattr(w.sched, "_result_archive", None)
    if ra is not None:
        out.append(("result_archive", ra))
    return out


def reuse_handouts(w):
    """The caller reuses (overwrites) the result arrays of Scheduler.ask() / ask_dqd() of rounds that have
    been told: a round that is over must not reach the emitters / the archive through such an array."""
    if not w.monitored:
        return
    rest = []
    for h in w.handouts:
        if h[2]:
            if trash_array(h[1]):
                count("handout:overwritten-after-the-matching-tell")
        else:
            rest.append(h)
    w.handouts = rest


def sched_ask(w, meth):
    """Scheduler.ask() / ask_dqd() as a monitored call (any number of emitters, any emitter class): what it
    returns is writeable only if it shares no memory with anything reachable from the emitters and the
    archive; after the matching tell the monitored world overwrites it (just before the next ask), and the
    emitters, the archive and everything asked later must agree with the clean twin."""
    box = {}
    label = f"{sched_name(w)}.{meth}"

    def invoke():
        reuse_handouts(w)
        box["sols"] = getattr(w.sched, meth)()
        return box["sols"]

    return Call(label, None, [], [], invoke, handout=label, graph_roots=lambda: handout_roots(w)), box


def telling(w, fn):
    """A tell / tell_dqd that returned closes the round: from now on the caller may reuse the result of the
    matching ask."""

    def invoke():
        r = fn()
        for h in w.handouts:
            h[2] = True
        return r

    return invoke


def calls_sched_final(w, op):
    """End of a scheduler case: the result arrays of all told rounds are overwritten and one more batch is
    asked (ask_dqd when the scheduler has DQD emitters)."""
    dqd = sched_name(w) == "Scheduler" and any(type(e).__name__ in DQD_EMITTERS for e in w.emitters)
    c, _ = sched_ask(w, "ask_dqd" if dqd else "ask")
    yield c


def calls_tell(w, op):
    c, box = sched_ask(w, "ask")
    yield c
    if "sols" not in box:
        return
    sols = box["sols"]
    n = len(sols)
    obj, meas, ex, _ = eval_values(op["seed"], n, w.dims)
    a = [mk(w, op, "objective", obj, 2), mk(w, op, "measures", meas, 3), mk(w, op, "ex", ex, 4)]
    lean = "BanditScheduler.tell" if sched_name(w) == "BanditScheduler" else "Scheduler.tell"
    bits = [("a", "objective", False), ("a", "measures", False), ("a", "ex", False),
            ("f", w.case.get("add_mode", "batch") == "single"), ("b",), ("b",)]
    yield Call(f"{sched_name(w)}.tell", lean, bits, a,
               telling(w, lambda: w.sched.tell(a[0].obj, a[1].obj, ex=a[2].obj)))


def calls_dqd_round(w, op):
    """ask_dqd / tell_dqd / ask / tell through the scheduler."""
    c, box = sched_ask(w, "ask_dqd")
    yield c
    if "sols" not in box:
        return
    sols = box["sols"]
    n = len(sols)
    obj, meas, ex, jac = eval_values(op["seed"], n, w.dims)
    a = [mk(w, op, "objective", obj, 2), mk(w, op, "measures", meas, 3), mk(w, op, "ex", ex, 4),
         mk(w, op, "jacobian", jac, 5)]
    bits = [("a", "objective", False), ("a", "measures", False), ("a", "ex", False), ("a", "jacobian", False),
            ("b",), ("b",)]
    yield Call("Scheduler.tell_dqd", "Scheduler.tell_dqd", bits, a,
               telling(w, lambda: w.sched.tell_dqd(a[0].obj, a[1].obj, a[3].obj, ex=a[2].obj)))
    yield from calls_tell(w, dict(op, seed=op["seed"] + 1))


def info_arg(w, op, info):
    parts = {}
    for k, v in info.items():
        v = np.asarray(v)
        ex_dt = v.dtype
        oth = np.float32 if v.dtype == np.float64 else (np.float64 if v.dtype == np.float32 else np.int64)
        parts[k] = mk(w, op, f"add_info[{k}]", v, 8 + len(parts), exact=ex_dt, other=oth)
    return DictArg("add_info", parts)


def emitter_tell_call(w, e, op, sols):
    n = len(sols)
    obj, meas, ex, _ = eval_values(op["seed"], n, w.dims)
    info = w.archive.add(np.array(sols, dtype=w.dt), obj.astype(w.dt), meas.astype(w.dt), ex=ex.astype(w.dt))
    a = [mk(w, op, "solution", np.asarray(sols, dtype=np.float64), 1), mk(w, op, "objective", obj, 2),
         mk(w, op, "measures", meas, 3), mk(w, op, "ex", ex, 4), info_arg(w, op, info)]
    cls = type(e).__name__
    c6 = [("a", "solution", False), ("a", "objective", True), ("a", "measures", True), ("a", "ex", False),
          ("a", "add_info", False), ("a", "add_info", False)]
    if cls == "EvolutionStrategyEmitter":
        lean, bits = "EvolutionStrategyEmitter.tell", c6 + [("b",), ("b",)]
    elif cls == "GradientArborescenceEmitter":
        lean, bits = "GradientArborescenceEmitter.tell", c6 + [("b",), ("b",), ("b",)]
    else:
        lean, bits = None, []  # EmitterBase.tell does nothing
    return Call(f"{cls}.tell", lean, bits, a,
                lambda: e.tell(a[0].obj, a[1].obj, a[2].obj, a[4].obj, ex=a[3].obj))


def calls_emitter_tell(w, op):
    e = w.emitters[op.get("e", 0) % len(w.emitters)]
    if type(e).__name__ in ("GradientArborescenceEmitter", "GradientOperatorEmitter"):
        yield from calls_emitter_dqd(w, op)
        return
    sols = e.ask()
    yield emitter_tell_call(w, e, op, sols)


def calls_emitter_dqd(w, op):
    """ask_dqd / tell_dqd / ask / tell directly on a DQD emitter."""
    e = w.emitters[op.get("e", 0) % len(w.emitters)]
    sols = e.ask_dqd()
    n = len(sols)
    obj, meas, ex, jac = eval_values(op["seed"], n, w.dims)
    info = w.archive.add(np.array(sols, dtype=w.dt), obj.astype(w.dt), meas.astype(w.dt), ex=ex.astype(w.dt))
    a = [mk(w, op, "solution", np.asarray(sols, dtype=np.float64), 1), mk(w, op, "objective", obj, 2),
         mk(w, op, "measures", meas, 3), mk(w, op, "ex", ex, 4), mk(w, op, "jacobian", jac, 5),
         info_arg(w, op, info)]
    cls = type(e).__name__
    bits = [("a", "solution", False), ("a", "objective", True), ("a", "measures", True), ("a", "ex", False),
            ("a", "jacobian", False), ("a", "add_info", False), ("a", "add_info", False), ("b",)]
    yield Call(f"{cls}.tell_dqd", f"{cls}.tell_dqd", bits, a,
               lambda: e.tell_dqd(a[0].obj, a[1].obj, a[2].obj, a[4].obj, a[5].obj, ex=a[3].obj))
    sols2 = e.ask()
    yield emitter_tell_call(w, e, dict(op, seed=op["seed"] + 1), sols2)


def calls_step(w, op):
    r = np.random.default_rng(op["seed"])
    g = r.integers(-8, 9, 3) / 4.0  # theta0 of the optimizer worlds has 3 components
    a = [mk(w, op, "gradient", g, 1)]
    cls = type(w.opt).__name__
    yield Call(f"{cls}.step", f"{cls}.step", [("a", "gradient", False)], a, lambda: w.opt.step(a[0].obj))


# ---- visualisation


def calls_plot(w, op):
    import matplotlib
    matplotlib.use("Agg")
    import matplotlib.pyplot as plt
    import pandas as pd
    import ribs.visualize as viz
    frame = w.archive.data(return_type="pandas").copy()
    if op.get("frame") == "pdf":
        frame = pd.DataFrame(frame)  # a plain DataFrame: validate_df re-wraps it
    a = [FrameArg("df", frame, "list" if op.get("frame") == "pdf" else "exact")]
    fn = op["fn"]
    kw = {}
    if fn == "parallel_axes_plot":
        kw["sort_archive"] = bool(op.get("sort", False))
        lean, bits = "parallel_axes_plot", [("f", op.get("frame") == "pdf"), ("f", kw["sort_archive"])]
    else:
        lean, bits = "heatmap_df", [("f", op.get("frame") == "pdf")]

    def invoke():
        fig = plt.figure(figsize=(3, 3))
        try:
            if fn == "cvt_archive_3d_plot":
                ax = fig.add_subplot(projection="3d")
                return getattr(viz, fn)(w.archive, ax=ax, df=a[0].obj, **kw)
            return getattr(viz, fn)(w.archive, df=a[0].obj, **kw)
        finally:
            plt.close("all")

    yield Call(f"{fn}(df={op.get('frame', 'adf')})", lean, bits, a, invoke)


# ---- internal helpers with their own transcriptions


def calls_helper(w, op):
    from ribs._utils import validate_batch, validate_single
    from ribs.archives import _transforms as T
    which = op["which"]
    n = op.get("n", 3)
    sol, obj, meas, ex = gen_rows(op["seed"], n, w.dims)
    if which == "validate_batch":
        _, _, _, jac = eval_values(op["seed"], n, w.dims)
        info = {"status": np.arange(n, dtype=np.int32) % 3, "value": obj.astype(w.dt)}
        a = [mk(w, op, "solution", sol, 1), mk(w, op, "objective", obj, 2), mk(w, op, "measures", meas, 3),
             mk(w, op, "ex", ex, 4), info_arg(w, op, info), mk(w, op, "jacobian", jac, 5)]
        bits = [("a", "solution", False), ("a", "objective", True), ("a", "measures", True), ("a", "ex", False),
                ("a", "add_info", False), ("a", "add_info", False), ("a", "jacobian", False)]
        yield Call("validate_batch", "validate_batch", bits, a,
                   lambda: validate_batch(w.archive, {"solution": a[0].obj, "objective": a[1].obj,
                                                      "measures": a[2].obj, "ex": a[3].obj}, a[4].obj, a[5].obj),
                   out_alias_ok=True)
    elif which == "validate_single":
        a = [mk(w, op, "solution", sol[0], 1), mk(w, op, "measures", meas[0], 3), mk(w, op, "ex", ex[0], 4)]
        yield Call("validate_single", "validate_single", [("a", "solution", False), ("a", "measures", True)], a,
                   lambda: validate_single(w.archive, {"solution": a[0].obj, "objective": float(obj[0]),
                                                       "measures": a[1].obj, "ex": a[2].obj}),
                   out_alias_ok=True)
    else:
        # a transform, called the way ArrayStore.add calls it
        single = which == "single_entry_with_threshold"
        k = 1 if single else n
        a = [mk(w, op, "solution", sol[:k], 1), mk(w, op, "objective", obj[:k], 2),
             mk(w, op, "measures", meas[:k], 3), mk(w, op, "ex", ex[:k], 4)]
        if isinstance(a[1].obj, list):
            a[1] = CallerArg("objective", np.asarray(obj[:k], dtype=w.dt), [], "exact")  # transforms get ndarrays
        indices = CallerArg("indices", w.archive.index_of(meas[:k].astype(w.dt)), [], "exact")
        a.append(indices)
        new_data = {"solution": np.asarray(a[0].obj), "objective": a[1].obj, "measures": np.asarray(a[2].obj),
                    "ex": np.asarray(a[3].obj)}
        for nm, arg in zip(("solution", "measures", "ex"), (a[0], a[2], a[3])):
            if isinstance(arg.obj, list):
                arg.obj = new_data[nm]  # the arrays the transform sees are the caller's arrays
        st = w.archive._store  # pylint: disable=protected-access
        occupied, cur_data = st.retrieve(indices.obj)
        extra = {"dtype": w.archive.dtypes["threshold"], "learning_rate": w.archive.learning_rate,
                 "threshold_min": w.archive.threshold_min,
                 "objective_sum": w.archive._objective_sum}  # pylint: disable=protected-access
        if which in ("compute_objective_sum", "compute_best_index"):
            new_data["threshold"] = np.asarray(obj[:k], dtype=w.dt)
        bits = [("f", w.kind == "grid_mae")] if which == "batch_entries_with_threshold" else []
        fn = getattr(T, which)
        yield Call(f"transforms.{which}", f"transforms.{which}", bits, a,
                   lambda: fn(indices.obj, new_data, {}, extra, occupied, cur_data), out_alias_ok=True)


PREP = {
    "add": calls_add, "add_single": calls_add_single, "retrieve": calls_retrieve, "retrieve_single": calls_retrieve,
    "sample": calls_sample, "best": calls_best, "data": calls_data, "iter": calls_iter, "cqd": calls_cqd,
    "store_add": calls_store_add, "store_retrieve": calls_store_retrieve, "store_data": calls_store_data,
    "store_raw": calls_store_raw, "tell": calls_tell, "dqd_round": calls_dqd_round,
    "emitter_tell": calls_emitter_tell, "emitter_dqd": calls_emitter_dqd, "step": calls_step, "plot": calls_plot,
    "helper": calls_helper, "store_from_raw": calls_from_raw, "construct": calls_construct,
    "ask_probe": calls_ask_probe, "sched_final": calls_sched_final, "store_chain": calls_store_chain,
}
OUTPUT_OPS = {"retrieve", "retrieve_single", "sample", "best", "data", "iter", "cqd", "store_retrieve",
              "store_data", "store_raw", "readpaths"}


# --------------------------------------------------------------------------
# the Lean machine


class Lean:
    """Verdicts of the ownership monitor on the IR transcriptions (cached; the machine is stateless)."""

    def __init__(self):
        self.drv = Driver("alias")
        self.cache = {}
        self.entries = {}
        for t in self.drv.ask("list").split(","):
            name, n = t.rsplit(":", 1)
            self.entries[name] = int(n)

    def verdict(self, name, bits):
        key = (name, bits)
        if key not in self.cache:
            self.cache[key] = self.drv.ask(f"check {name} {bits or '-'}")
            count("lean:verdicts-asked")
        return self.cache[key]

    def negatives(self):
        out = []
        line = self.drv.ask("neglist")
        for t in line.split(","):
            name, bits, why = t.split(":", 2)
            out.append((name, "" if bits == "-" else bits, why))
        return out

    def check_call(self, call):
        """'ok' or the first non-ok verdict over all code-branch bits."""
        if call.lean is None:
            return "ok"
        count("entry:" + call.lean)
        if call.lean not in self.entries:
            return f"unknown (no transcription named {call.lean})"
        lay = {}
        for a in call.args:
            lay[a.name] = a
        fixed = []
        free = []
        for i, b in enumerate(call.bits):
            if b[0] == "a":
                arg = lay[b[1]]
                if isinstance(arg, DictArg):
                    L = arg.layout
                else:
                    L = arg.layout
                fixed.append("1" if (L == "list" or (L == "otherdtype" and b[2])) else "0")
            elif b[0] == "f":
                fixed.append("1" if b[1] else "0")
            else:
                fixed.append(None)
                free.append(i)
        if len(fixed) != self.entries[call.lean]:
            return f"reject bits (harness sends {len(fixed)}, transcription has {self.entries[call.lean]})"
        for combo in itertools.product("01", repeat=len(free)):
            bits = list(fixed)
            for i, c in zip(free, combo):
                bits[i] = c
            v = self.verdict(call.lean, "".join(bits))
            if v != "ok":
                return f"{v} at bits {''.join(bits)}"
        return "ok"

    def close(self):
        self.drv.close()


_LEAN = [None]
_CTX = [None]  # the Ctx of this run: whatever is recorded through it travels back from forked workers


def count(key):
    if _CTX[0] is not None:
        _CTX[0].count(key)


def lean():
    if _LEAN[0] is None:
        _LEAN[0] = Lean()
    return _LEAN[0]


def lean_close():
    if _LEAN[0] is not None:
        _LEAN[0].close()
        _LEAN[0] = None


# --------------------------------------------------------------------------
# the monitor


def monitor_call(w, call, where):
    """Run one call under the alias monitor. Returns (Failure|None, exception name|None)."""
    before = [snap_arg(a) for a in call.args]
    exc = None
    res = None
    items = []
    ints = conts = None
    pre = w.observe() if call.frozen else None
    try:
        if call.is_iter:
            # a first pass whose entries the caller KEEPS (unmodified) across the later calls of the case: an
            # entry is a snapshot of one elite, so whatever is added or overwritten later must not show in it
            for k, e in enumerate(itertools.islice(call.invoke(), 8)):
                w.kept.append((f"{where} {call.name} entry#{k}", e, fp_entry(e)))
                count("iter:entries-kept-across-later-calls")
        res = call.invoke()
        if call.is_iter:
            # drain the iterator; every yielded entry is an output: check it, trash it, go on
            it = res
            res = None
            while True:
                try:
                    e = next(it)
                except StopIteration:
                    break
                ints, conts = internal_arrays(w.roots())
                f = check_outputs(call, e, ints, conts, where, f"entry#{len(items)}")
                if f is not None:
                    return f, None
                obs0 = w.observe()
                trash_output(e)
                obs1 = w.observe()
                if obs0 != obs1:
                    return Failure("oracle", f"{where} {call.name}: writing into yielded entry #{len(items)} changed "
                                   f"the callee: {diff_keys(obs0, obs1)[:4]}"), None
                items.append(1)
    except Exception as e:  # pylint: disable=broad-except
        exc = type(e).__name__
        if call.must_succeed:
            return Failure("oracle", f"{where} {call.name}: raised {exc}: {str(e)[:160]}"), exc
    if call.post is not None and exc is None:
        f = call.post()
        if f is not None:
            return f, exc
    if call.handout and isinstance(res, np.ndarray):
        kinds = sorted({type(e).__name__ for e in w.emitters})
        count(f"handout:{call.handout}:{'1-emitter' if len(w.emitters) == 1 else 'several-emitters'}")
        for k in kinds:
            count(f"handout:{call.handout}:{k}")
        w.handouts.append([call.handout, res, False])
    if pre is not None:
        post = w.observe()
        for k in call.frozen:
            if pre.get(k) != post.get(k):
                return Failure("oracle", f"{where} {call.name}: changed `{k}`, which shares nothing with it: "
                               f"{diff_keys(pre.get(k), post.get(k))[:4]}"), exc
    # (1) caller arrays bit-identical
    for a, b in zip(call.args, before):
        if snap_arg_after(a, b) != b:
            return Failure("oracle", f"{where} {call.name}: caller argument `{a.name}` (layout {a.layout}) was "
                           "mutated by the call"), exc
    # (2) nothing reachable from the callee overlaps a caller array
    ints, conts = internal_arrays(call.graph_roots() if call.graph_roots else w.roots())
    for a in call.args:
        for ca in a.arrays():
            for path, ia in ints:
                if overlaps(ca, ia):
                    return Failure("oracle", f"{where} {call.name}: the callee keeps a reference into caller "
                                   f"argument `{a.name}` (layout {a.layout}) at {path}"), exc
    # (2b) ... nor is a list the caller passed kept as the very same object
    for a in call.args:
        if isinstance(a.obj, list) and id(a.obj) in conts:
            path = conts[id(a.obj)]
            return Failure("oracle", f"{where} {call.name}: the callee keeps the caller's list `{a.name}` itself "
                           f"(the same object) at {path}",
                           key="D42-sba-buffer-keeps-list-argument" if "_buffer._queue" in path else None), exc
    # (3) returned arrays: read-only, or disjoint from everything internal
    if res is not None:
        f = check_outputs(call, res, ints, conts, where, "ret")
        if f is not None:
            return f, exc
    obs0 = w.observe()
    for a in call.args:
        trash_arg(a)
    obs1 = w.observe()
    if obs0 != obs1:
        return Failure("oracle", f"{where} {call.name}: overwriting the caller's arrays after the call changed the "
                       f"callee: {diff_keys(obs0, obs1)[:4]}"), exc
    if res is not None and not call.handout:
        # (a handed-out batch of solutions is the scheduler's until the matching tell: it is overwritten after
        # that tell has returned, see reuse_handouts)
        trash_output(res)
        obs2 = w.observe()
        if obs1 != obs2:
            return Failure("oracle", f"{where} {call.name}: writing into the returned object changed the callee: "
                           f"{diff_keys(obs1, obs2)[:4]}"), exc
    return None, exc


def fp_entry(e):
    return sorted((str(k), fp_any(v)) for k, v in e.items()) if isinstance(e, dict) else fp_any(e)


def check_kept(w):
    """Entries of an earlier iteration that the caller kept are still what they were."""
    for label, e, fp in w.kept:
        count("iter:kept-entry-rechecked-after-a-later-call")
        now = fp_entry(e)
        if now != fp:
            changed = [k for (k, a), (_, b) in zip(fp, now) if a != b] if isinstance(e, dict) else []
            return Failure("oracle", f"{label}: the entry yielded by that iteration, kept unmodified by the caller, "
                           f"changed after later calls (fields {changed}): it is not a copy of the elite")
    return None


def check_outputs(call, res, ints, conts, where, label):
    if call.out_alias_ok:
        return None
    # the returned container itself must not be an internal object
    stack = [(label, res)]
    while stack:
        p, o = stack.pop()
        if is_payload(o):
            continue
        if isinstance(o, (dict, list)) and id(o) in conts:
            return Failure("oracle", f"{where} {call.name}: returned {p} IS the internal object {conts[id(o)]} "
                           "(not a copy)")
        if isinstance(o, dict):
            stack += [(f"{p}[{k!r}]", v) for k, v in o.items()]
        elif isinstance(o, (list, tuple)):
            stack += [(f"{p}[{i}]", v) for i, v in enumerate(o)]
    outs = output_arrays(res, label)
    # outputs are copies: nothing handed out is the caller's own object or a view of one of its arrays
    # (read-only or not)
    for a in call.args:
        if isinstance(a.obj, (list, dict)):
            stack = [(label, res)]
            while stack:
                p, o = stack.pop()
                if o is a.obj:
                    return Failure("oracle", f"{where} {call.name}: returned {p} IS the caller's argument "
                                   f"`{a.name}` (not a copy)")
                if isinstance(o, dict) and not is_payload(o):
                    stack += [(f"{p}[{k!r}]", v) for k, v in o.items()]
                elif isinstance(o, (list, tuple)) and not is_payload(o):
                    stack += [(f"{p}[{i}]", v) for i, v in enumerate(o)]
        for ca in a.arrays():
            for p, arr, _ in outs:
                if overlaps(arr, ca):
                    return Failure("oracle", f"{where} {call.name}: returned {p} is the caller's argument "
                                   f"`{a.name}` (layout {a.layout}) or a view of it, not a copy")
    for p, arr, writable in outs:
        if not writable:
            continue
        for path, ia in ints:
            if overlaps(arr, ia):
                return Failure("oracle", f"{where} {call.name}: returned {p} is a writeable alias of internal "
                               f"{path}")
    return None


def clean_call(w, call):
    exc = None
    try:
        res = call.invoke()
        if call.is_iter:
            for _ in res:
                pass
    except Exception as e:  # pylint: disable=broad-except
        exc = type(e).__name__
    # observe as often as the monitored twin does (observation must not matter, but keep both alike)
    w.observe()
    return exc


# --------------------------------------------------------------------------
# read-path agreement (runtime)


def entry_mismatch(dt, got, ref):
    """Does `got` (an entry as some read path presents it) differ from `ref` = data()[field][i]? Numeric
    fields: dtype, shape, bits. Object fields: Python TYPE and value (a list is not an ndarray, a dict is
    not a 0-d array holding a dict)."""
    if dt == object:
        return fp_any(got) != fp_any(ref)
    v = np.asarray(got)
    return v.dtype != dt or v.shape != np.shape(ref) or fp_value(v) != fp_value(ref)


def check_readpaths(w, where):
    src = w.archive if w.archive is not None else w.store
    name = type(src).__name__
    d = src.data()
    fields = list(d.keys())
    n = len(src)
    dts = dict(src.dtypes) if w.archive is not None else dict(w.store.dtypes)
    dts["index"] = np.dtype(np.int32)

    def bad(msg):
        return Failure("oracle", f"{where} {name} read paths: {msg}")

    for k in fields:
        if d[k].dtype != dts[k]:
            return bad(f"data()[{k!r}] has dtype {d[k].dtype}, declared {np.dtype(dts[k])}")
        if len(d[k]) != n:
            return bad(f"data()[{k!r}] has {len(d[k])} rows, len() = {n}")
    t = src.data(return_type="tuple")
    if len(t) != len(fields) or any(fp_value(x) != fp_value(d[k]) for x, k in zip(t, fields)):
        return bad("tuple view differs from dict view")
    for k in fields:
        s1 = src.data(k)
        if fp_value(s1) != fp_value(d[k]):
            return bad(f"single-field view {k!r} differs from dict view")
    sel = [fields[-1], fields[0], fields[1]]
    ds = src.data(sel)
    ts = src.data(sel, return_type="tuple")
    if list(ds.keys()) != sel or any(fp_value(ds[k]) != fp_value(d[k]) for k in sel) or \
            any(fp_value(x) != fp_value(d[k]) for x, k in zip(ts, sel)):
        return bad("field-selected views differ from dict view")
    df = src.data(return_type="pandas")
    if len(df) != n:
        return bad(f"pandas view has {len(df)} rows, len() = {n}")
    # pandas columns: a scalar field is one column `name`; a vector field of length m is the m columns
    # name_0 .. name_{m-1} in NUMERICAL order, column name_j holding component j of every elite
    want_cols = []
    for k in fields:
        want_cols += [k] if d[k].ndim == 1 else [f"{k}_{j}" for j in range(d[k].shape[1])]
    if list(df.columns) != want_cols:
        return bad(f"pandas columns are {list(df.columns)}, expected {want_cols}")
    for k in fields:
        names = [k] if d[k].ndim == 1 else [f"{k}_{j}" for j in range(d[k].shape[1])]
        for j, c in enumerate(names):
            col = df[c].to_numpy()
            ref = d[k] if d[k].ndim == 1 else d[k][:, j]
            if col.dtype != dts[k] or fp_value(col) != fp_value(ref):
                return bad(f"pandas column {c!r} differs from data()[{k!r}]"
                           f"{'' if d[k].ndim == 1 else f'[:, {j}]'} (dtype {col.dtype}, declared "
                           f"{np.dtype(dts[k])})")
    if w.archive is not None:
        for k in fields:
            g = df.get_field(k)
            if g is None or g.dtype != dts[k] or g.shape != d[k].shape or fp_value(g) != fp_value(d[k]):
                where_ = ""
                if g is not None and g.shape == d[k].shape and d[k].ndim == 2 and n:
                    badc = [j for j in range(d[k].shape[1]) if not np.array_equal(g[:, j], d[k][:, j])]
                    where_ = f"; components {badc[:6]} differ, first elite: {g[0].tolist()} vs {d[k][0].tolist()}"
                return bad(f"ArchiveDataFrame.get_field({k!r}) differs from data()[{k!r}] "
                           f"(dtype {None if g is None else g.dtype}, declared {np.dtype(dts[k])}{where_})")
        rows = list(df.iterelites())
        if len(rows) != n:
            return bad(f"iterelites yields {len(rows)} elites, len() = {n}")
        for i, e in enumerate(rows):
            if sorted(e.keys()) != sorted(fields):
                return bad(f"iterelites entry {i} has fields {sorted(e.keys())}")
            for k in fields:
                if entry_mismatch(dts[k], e[k], d[k][i]):
                    return bad(f"iterelites entry {i} field {k!r} = {e[k]!r} ({type(e[k]).__name__}) differs "
                               f"from data()[{k!r}][{i}] = {d[k][i]!r} ({type(d[k][i]).__name__})")
    it = list(src)
    if len(it) != n:
        return bad(f"iteration yields {len(it)} entries, len() = {n}")
    for i, e in enumerate(it):
        if sorted(e.keys()) != sorted(fields):
            return bad(f"iteration entry {i} has fields {sorted(e.keys())}")
        for k in fields:
            if entry_mismatch(dts[k], e[k], d[k][i]):
                return bad(f"iteration entry {i} field {k!r} = {e[k]!r} ({type(e[k]).__name__}) differs from "
                           f"data()[{k!r}][{i}] = {d[k][i]!r} ({type(d[k][i]).__name__}; declared dtype "
                           f"{np.dtype(dts[k])})")
    # payload integrity: every stored object entry is, by type and value, what was submitted, and all object
    # fields of one row come from one and the same submitted candidate
    if w.has_tags:
        for i in range(n):
            x = d["meta"][i]
            pid = payload_id(x)
            if pid is None or w.registry.get(pid) != _fp_obj(x):
                return bad(f"stored meta[{i}] = {x!r} ({type(x).__name__}) is not a submitted payload "
                           f"(submitted: {w.registry.get(pid)})")
            t0, t1 = d["tags"][i]
            if not isinstance(t0, Payload) or t0.pid != pid or t1 != f"t{pid}" or not isinstance(t1, str):
                return bad(f"stored tags[{i}] = {d['tags'][i]!r} does not belong to the candidate of meta[{i}] "
                           f"(payload id {pid})")
    if w.objsol:
        for i in range(n):
            row = d["solution"][i]
            if any(not isinstance(x, str) for x in row) or \
                    [x.split("_")[-1] for x in row] != [str(j) for j in range(len(row))] or \
                    len({x.rsplit("_", 1)[0] for x in row}) != 1:
                return bad(f"stored object solution {row!r} is not a submitted solution")
    if w.archive is None:
        return None
    index_row = {int(ix): i for i, ix in enumerate(d["index"])}

    def same_row(label, got, i_got, j):
        for k in fields:
            g = got[k] if i_got is None else got[k][i_got]
            if entry_mismatch(dts[k], g, d[k][j]):
                return bad(f"{label} field {k!r} = {g!r} ({type(g).__name__}) differs from data()[{k!r}][{j}] = "
                           f"{d[k][j]!r} ({type(d[k][j]).__name__})")
        return None

    # best_elite: when the cached best elite is still stored, it is presented like its row of data()
    be = src.best_elite
    if be is not None and sorted(be.keys()) != sorted(fields):
        return bad(f"best_elite has fields {sorted(be.keys())}")
    if be is not None:
        for j in range(n):
            if all(not entry_mismatch(dts[k], be[k], d[k][j]) for k in ("solution", "objective", "measures")):
                for k in fields:
                    if k not in ("threshold", "index") and entry_mismatch(dts[k], be[k], d[k][j]):
                        return bad(f"best_elite field {k!r} = {be[k]!r} ({type(be[k]).__name__}) differs from "
                                   f"data()[{k!r}][{j}] = {d[k][j]!r} ({type(d[k][j]).__name__})")
                break
    if n:
        # retrieve / retrieve_single / sample_elites present stored rows like data() does
        occ, r = src.retrieve(d["measures"])
        for i in range(n):
            if occ[i] and int(r["index"][i]) in index_row:
                f = same_row(f"retrieve(...)[{i}]", r, i, index_row[int(r["index"][i])])
                if f is not None:
                    return f
        o1, r1 = src.retrieve_single(d["measures"][0])
        if o1 and int(r1["index"]) in index_row:
            f = same_row("retrieve_single(...)", r1, None, index_row[int(r1["index"])])
            if f is not None:
                return f
    return None


# --------------------------------------------------------------------------
# one case


def run_case(case):
    """Monitored run and clean twin in lock step. Returns None or a Failure."""
    with warnings.catch_warnings():
        warnings.simplefilter("ignore")
        np.seterr(all="ignore")
        return _run_case(case)


def _run_case(case):
    wa = World(case)  # monitored
    wb = World(case)  # clean twin
    wa.monitored = True
    ops = list(case["ops"])
    if case.get("sched") and ops:
        ops.append({"op": "sched_final"})  # the result arrays of the last round are reused as well
    for i, op in enumerate(ops):
        where = f"op#{i}"
        if op["op"] == "readpaths":
            f = check_readpaths(wa, where)
            if f is not None:
                return f
            continue
        if op["op"] == "d40":
            f = check_d40()
            if f is not None:
                return f
            continue
        try:
            ga = PREP[op["op"]](wa, op)
            gb = PREP[op["op"]](wb, op)
            ncalls = 0
            while True:
                ea = eb = None
                ca = cb = None
                try:
                    ca = next(ga)
                except StopIteration:
                    pass
                except Exception as e:  # pylint: disable=broad-except   (e.g. ask() raised)
                    ea = type(e).__name__
                try:
                    cb = next(gb)
                except StopIteration:
                    pass
                except Exception as e:  # pylint: disable=broad-except
                    eb = type(e).__name__
                if ea != eb or (ca is None) != (cb is None):
                    return Failure("oracle", f"{where} {op['op']}: after garbage was written into caller / returned "
                                   f"arrays of earlier calls the callee behaves differently from the clean twin "
                                   f"(preparation raised {ea} vs {eb})")
                if ca is None:
                    if ncalls == 0:
                        # an op without a monitored call (a probe): the twins must still agree
                        oa, ob = wa.observe(), wb.observe()
                        if oa != ob:
                            return Failure("oracle", f"{where} {op['op']}: behaviour differs from the clean twin "
                                           f"run (observables {diff_keys(oa, ob)[:4]}): garbage written into the "
                                           "caller's arrays after an earlier call reached the callee")
                    break
                ncalls += 1
                f, xa = monitor_call(wa, ca, where)
                if f is not None:
                    return f
                xb = clean_call(wb, cb)
                f = check_kept(wa)
                if f is not None:
                    return f
                oa, ob = wa.observe(), wb.observe()
                if xa != xb or oa != ob:
                    return Failure("oracle", f"{where} {ca.name}: later behaviour differs from the clean twin run "
                                   f"(exception {xa} vs {xb}; observables {diff_keys(oa, ob)[:4]}): garbage written "
                                   "into caller arrays / returned objects of this or an earlier call reached the "
                                   "callee")
                v = lean().check_call(ca)
                if v != "ok":
                    return Failure("corr", f"{where} {ca.name}: runtime monitor is clean but the IR transcription "
                                   f"{ca.lean} is not accepted: {v}")
        except KeyError as e:
            raise RuntimeError(f"bad op {op}: {e}") from e
    return shared_state(wa, wb)


def shared_state(wa, wb):
    """The two worlds of a case are built independently from python values: no mutable container and no array
    may be reachable from both (a dict / list / array hoisted to class level and shared by every instance of a
    class would be)."""
    ia, ca = internal_arrays(wa.roots())
    ib, cb = internal_arrays(wb.roots())
    for i in set(ca) & set(cb):
        return Failure("oracle", f"two independent instances share the mutable container {ca[i]} (also reachable "
                       f"as {cb[i]} from the other instance)")
    ids_b = {id(a): p for p, a in ib}
    for p, a in ia:
        if id(a) in ids_b and a.size:
            return Failure("oracle", f"two independent instances share the array {p} (also reachable as "
                           f"{ids_b[id(a)]} from the other instance)")
    return None


# --------------------------------------------------------------------------
# strata: exhaustive enumeration of (entry point, layout, dtype, class) x random states


ADD_ARGS = ("solution", "objective", "measures", "ex")
STORE_ARGS = ("indices", "objective", "measures", "solution")
TELL_ARGS = ("objective", "measures", "ex")
DQD_ARGS = ("solution", "objective", "measures", "ex", "jacobian", "add_info")


def rand_layout(rng, names=ADD_ARGS):
    """One layout for every argument, or (30 %) an independent layout per argument."""
    if rng.random() < 0.3:
        return {k: rng.choice(LAYOUTS) for k in names}
    return rng.choice(LAYOUTS)


def prefix_adds(rng, k, kind=None):
    """State-building adds with random layouts. For the SlidingBoundariesArchive outside its own stratum
    the prefix is batch adds of python lists: what its buffer does with caller arrays is the subject of the
    stratum `sliding.add`, which enumerates it exhaustively."""
    ops = []
    for _ in range(k):
        if kind == "sba":
            ops.append({"op": "add", "n": rng.choice([1, 2, 3, 5]), "seed": rng.randrange(10**6), "layout": "list"})
        elif rng.random() < 0.7:
            ops.append({"op": "add", "n": rng.choice([1, 2, 3, 5]), "seed": rng.randrange(10**6),
                        "layout": rand_layout(rng)})
        else:
            ops.append({"op": "add_single", "seed": rng.randrange(10**6), "layout": rand_layout(rng)})
    return ops


def combos_archive_add():
    return [(k, d, L, o) for k in ARCH_KINDS if k != "sba" for d in DTYPES for L in LAYOUTS
            for o in ("add", "add_single")]


def gen_archive_add(rng, c):
    k, d, L, o = c
    ops = prefix_adds(rng, rng.randint(0, 3))
    t = {"op": o, "seed": rng.randrange(10**6), "layout": L}
    if o == "add":
        t["n"] = rng.choice([1, 2, 4, 6])
    ops.append(t)
    ops += prefix_adds(rng, rng.randint(1, 2))
    ops.append({"op": "sample", "n": 2})
    case = {"arch": k, "dtype": d, "ops": ops}
    if rng.random() < 0.3:
        ops.append({"op": "readpaths"})
        with_obj(case, rng.choice(OBJ_VARIANTS[1:]))
    return case


def combos_sliding(quick):
    """(dtype x layout x entry point) in full; the (remap_frequency, buffer_capacity) settings are crossed in
    the thorough tier and rotated in the quick tier."""
    geo = ((3, 4), (2, 2), (4, 3))
    base = [(d, L, o) for d in DTYPES for L in LAYOUTS for o in ("add", "add_single", "mixed")]
    if quick:
        main = [(d, L, o) + geo[i % 3] for i, (d, L, o) in enumerate(base)]
    else:
        main = [(d, L, o, rm, bf) for (d, L, o) in base for (rm, bf) in geo]
    return main + \
           [(d, L, "tell:" + m, 3, 4) for d in DTYPES for L in LAYOUTS for m in ("batch", "single")]


def gen_sliding(rng, c):
    d, L, o, rm, bf = c
    if o.startswith("tell:"):
        # the scheduler feeding a SlidingBoundariesArchive
        ops = [{"op": "tell", "seed": rng.randrange(10**6), "layout": L} for _ in range(rng.randint(2, 3))]
        ops.append({"op": "data", "rt": "dict"})
        return {"arch": "sba", "dtype": d, "remap": rm, "buf": bf, "sched": "plain", "add_mode": o[5:],
                "emitters": EMITTER_SETS["es"], "ops": ops}
    ops = []
    for _ in range(rng.randint(2 * rm + 1, 3 * rm + 2)):
        kind = o if o != "mixed" else rng.choice(["add", "add_single"])
        t = {"op": kind, "seed": rng.randrange(10**6), "layout": L}
        if kind == "add":
            t["n"] = rng.choice([1, 2, 3])
        ops.append(t)
    ops.append({"op": "data", "rt": "dict"})
    case = {"arch": "sba", "dtype": d, "remap": rm, "buf": bf, "ops": ops}
    if rng.random() < 0.4:
        # object fields through the buffer and the remaps: still what was submitted, by type and value
        ops.append({"op": "readpaths"})
        with_obj(case, rng.choice(OBJ_VARIANTS[1:]))
    return case


READ_TARGETS = ([("retrieve", L) for L in LAYOUTS] + [("retrieve_single", L) for L in LAYOUTS] +
                [("cqd", L) for L in LAYOUTS] +
                [("sample", None), ("data:dict", None), ("data:tuple", None), ("data:pandas", None),
                 ("data:single", None), ("data:fields:dict", None), ("data:fields:tuple", None),
                 ("data:fields:pandas", None)])


def combos_archive_read():
    return [(k, d, t, L) for k in ARCH_KINDS for d in DTYPES for (t, L) in READ_TARGETS]


def target_read_op(rng, t, L):
    if t.startswith("data:"):
        op = {"op": "data", "rt": t[5:]}
        if t == "data:single":
            op["field"] = rng.choice(["solution", "objective", "measures", "threshold", "ex", "index"])
        return op
    op = {"op": t, "seed": rng.randrange(10**6)}
    if t == "cqd":
        op["dist"] = rng.choice(["explicit", "default"])
        op["ord"] = rng.choice([None, 1])
    if L is not None:
        op["layout"] = L
    if t in ("retrieve", "sample"):
        op["n"] = rng.choice([1, 3, 5])
    return op


def gen_archive_read(rng, c):
    k, d, t, L = c
    ops = prefix_adds(rng, rng.randint(1, 4), k)
    if k in ("prox", "prox_lc", "sba"):
        ops = [{"op": "add", "n": 3, "seed": rng.randrange(10**6), "layout": "list" if k == "sba" else "exact"}] + ops
    ops.append(target_read_op(rng, t, L))
    ops += prefix_adds(rng, 1, k)
    case = {"arch": k, "dtype": d, "ops": ops}
    if rng.random() < 0.34:
        case["dims"] = pick_dims(rng, rng.choice(DIM_PROFILES))
        ops.append({"op": "readpaths"})
    if rng.random() < 0.3:
        with_obj(case, rng.choice(OBJ_VARIANTS[1:]))
    return case


OBJ_VARIANTS = [None, "fields", "objsol", "both"]
# None: numeric fields only; "fields": extra object fields `tags` ((2,), object) -- NON-scalar entries -- and
# `meta` ((), object) with payloads of several Python types; "objsol": object solutions through the dict form
# of `dtype`; "both"


def with_obj(case, obj):
    if obj:
        case["obj"] = obj
    return case


def combos_best():
    return [(k, d, o) for o in OBJ_VARIANTS[:3] for k in ARCH_KINDS for d in DTYPES]


def gen_best(rng, c):
    k, d, o = c
    if o and rng.random() < 0.3:
        o = "both"
    ops = (prefix_adds(rng, rng.randint(1, 3), k) + [{"op": "best"}] + prefix_adds(rng, rng.randint(0, 2), k) +
           [{"op": "best"}, {"op": "readpaths"}])
    return with_obj({"arch": k, "dtype": d, "ops": ops}, o)


def combos_iter():
    return [(k, d, o) for o in OBJ_VARIANTS[:3] for k in ARCH_KINDS + ["store"] for d in DTYPES]


def store_prefix(rng, k):
    return [{"op": "store_add", "n": rng.choice([1, 2, 4]), "seed": rng.randrange(10**6),
             "layout": rand_layout(rng, STORE_ARGS)}
            for _ in range(k)]


def gen_iter(rng, c):
    k, d, o = c
    if o and rng.random() < 0.3:
        o = "both"
    dims = pick_dims(rng, rng.choice(DIM_PROFILES)) if rng.random() < 0.5 else list(DEFAULT_DIMS)
    # the entries of the first iteration are kept by the caller across the later adds (cells are overwritten,
    # the sliding archive remaps) and a second iteration
    if k == "store":
        return with_obj({"store": True, "dtype": d, "dims": dims,
                         "ops": store_prefix(rng, rng.randint(1, 3)) + [{"op": "iter"}, {"op": "readpaths"}] +
                         store_prefix(rng, rng.randint(1, 2)) + [{"op": "iter"}]}, o)
    return with_obj({"arch": k, "dtype": d, "dims": dims,
                     "ops": prefix_adds(rng, rng.randint(1, 3), k) + [{"op": "iter"}, {"op": "readpaths"}] +
                     prefix_adds(rng, rng.randint(1, 3), k) + [{"op": "iter"}]}, o)


def combos_store():
    out = []
    for d in DTYPES:
        for L in LAYOUTS:
            out.append((d, "store_add", L, None, None))
            for rt in ("dict", "tuple", "pandas"):
                for sel in ("all", "one", "some"):
                    out.append((d, "store_retrieve", L, rt, sel))
        for rt in ("dict", "tuple", "pandas"):
            for sel in ("all", "one", "some"):
                out.append((d, "store_data", None, rt, sel))
        out.append((d, "store_raw", None, None, None))
        for L in LAYOUTS:
            for first in XF_KINDS:
                out.append((d, "store_chain", L, first, None))  # rt slot: kind of the first transform
        for L in NOCOPY_LAYOUTS:
            out.append((d, "store_from_raw", L, None, "copy"))
        out.append((d, "store_from_raw", None, None, "readonly"))
    return out


def gen_store(rng, c):
    d, o, L, rt, sel = c
    ops = store_prefix(rng, rng.randint(1, 3))
    t = {"op": o, "seed": rng.randrange(10**6)}
    if L is not None:
        t["layout"] = L
    if o == "store_add":
        t["n"] = rng.choice([1, 3, 5])
    if o == "store_chain":
        # chain of 2..4 user transforms; the kind of the first one is enumerated, the others are drawn
        t["n"] = rng.choice([2, 3, 5, 6])
        t["chain"] = [rt] + [rng.choice(XF_KINDS) for _ in range(rng.randint(1, 3))]
        rt = None
    if rt is not None:
        t["rt"], t["sel"] = rt, sel
    if o == "store_from_raw":
        t["src"] = sel
    ops.append(t)
    ops += store_prefix(rng, 1)
    if o == "store_chain":
        ops.append({"op": "store_chain", "n": rng.choice([2, 4]), "seed": rng.randrange(10**6),
                    "layout": rand_layout(rng, STORE_ARGS),
                    "chain": [rng.choice(XF_KINDS) for _ in range(rng.randint(2, 4))]})
        ops.append({"op": "store_data", "rt": "dict", "sel": "all"})
    case = {"store": True, "dtype": d, "ops": ops}
    if rng.random() < 0.34:
        case["dims"] = pick_dims(rng, rng.choice(DIM_PROFILES))
        ops.append({"op": "readpaths"})
    if rng.random() < (0.5 if o == "store_from_raw" else 0.3):
        with_obj(case, rng.choice(OBJ_VARIANTS[1:]))
    return case


EMITTER_SETS = {
    "gauss": [{"kind": "gauss"}, {"kind": "gauss"}],
    "iso": [{"kind": "iso"}, {"kind": "gauss"}],
    "es": [{"kind": "es"}, {"kind": "es", "ranker": "imp"}],
    "es2": [{"kind": "es", "ranker": "obj", "es": "openai_es"}, {"kind": "es", "ranker": "2rd"}],
    "mixed": [{"kind": "es", "restart": 1}, {"kind": "iso"}, {"kind": "gauss"}],
    # thorough tier only: every further numba-compiled strategy costs seconds of JIT per process
    "es3": [{"kind": "es", "ranker": "imp", "es": "sep_cma_es"}, {"kind": "es", "ranker": "2obj", "es": "lm_ma_es"}],
}


def combos_sched(quick):
    """(scheduler class x add_mode x dtype x layout) is enumerated in full; the emitter sets are crossed in
    full in the thorough tier and rotated in the quick tier."""
    sets = [e for e in EMITTER_SETS if not (quick and e == "es3")]
    if quick:
        base = [(s, m, d, L) for s in ("plain", "bandit") for m in ("batch", "single") for d in DTYPES
                for L in LAYOUTS]
        main = [(s, m, sets[i % len(sets)], d, L, "grid") for i, (s, m, d, L) in enumerate(base)]
    else:
        main = [(s, m, e, d, L, "grid") for s in ("plain", "bandit") for m in ("batch", "single") for e in sets
                for d in DTYPES for L in LAYOUTS]
    return main + \
           [("plain", "batch", "es", d, L, k) for d in DTYPES for L in LAYOUTS
            for k in ("grid_mae", "cvt", "prox_lc")]


def gen_sched(rng, c):
    s, m, e, d, L, k = c
    ops = [{"op": "tell", "seed": rng.randrange(10**6), "layout": rand_layout(rng, TELL_ARGS)}
           for _ in range(rng.randint(0, 2))]
    ops.append({"op": "tell", "seed": rng.randrange(10**6), "layout": L})
    ops += [{"op": "tell", "seed": rng.randrange(10**6), "layout": rand_layout(rng, TELL_ARGS)}
            for _ in range(rng.randint(1, 2))]
    return {"arch": k, "dtype": d, "sched": s, "add_mode": m, "emitters": EMITTER_SETS[e], "ops": ops}


HANDOUT_KINDS = {"plain": ("gauss", "iso", "genetic", "es", "ga", "go"), "bandit": ("gauss", "iso", "genetic", "es")}


def combos_handout(quick):
    """(scheduler class x emitter class x number of emitters in {1, 2, 3} x add_mode); dtype crossed in the
    thorough tier and rotated in the quick tier. DQD emitters run ask_dqd / tell_dqd / ask / tell rounds (plain
    Scheduler only: BanditScheduler has no ask_dqd), the others ask / tell rounds."""
    base = [(s, k, n, m) for s in ("plain", "bandit") for k in HANDOUT_KINDS[s] for n in (1, 2, 3)
            for m in ("batch", "single")]
    if quick:
        return [(s, k, n, m, list(DTYPES)[i % 2]) for i, (s, k, n, m) in enumerate(base)]
    return [(s, k, n, m, d) for (s, k, n, m) in base for d in DTYPES]


def gen_handout(rng, c):
    s, k, n, m, d = c
    if k in ("ga", "go"):
        other = "go" if k == "ga" else "ga"
        kinds = [[k], [k, k], [k, other, "gauss"]][n - 1]  # three emitters: both DQD classes and a non-DQD one
        specs = []
        for x in kinds:
            sp = {"kind": x}
            if x in ("ga", "go"):
                sp["normalize"] = rng.random() < 0.5
            if x == "ga":
                sp["grad_opt"] = rng.choice(["adam", "gradient_ascent"])
            specs.append(sp)
        o, names = "dqd_round", DQD_ARGS
    else:
        fill = {"gauss": "iso", "iso": "genetic", "genetic": "gauss", "es": "gauss"}[k]
        kinds = [[k], [k, k], [k, fill, k]][n - 1]
        specs = [{"kind": x} for x in kinds]
        o, names = "tell", TELL_ARGS
    ops = [{"op": "add", "n": 3, "seed": rng.randrange(10**6), "layout": "exact"}] if rng.random() < 0.5 else []
    ops += [{"op": o, "seed": rng.randrange(10**6), "layout": rand_layout(rng, names)}
            for _ in range(rng.randint(2, 3))]
    return {"arch": rng.choice(["grid", "grid", "cvt"]), "dtype": d, "sched": s, "add_mode": m, "emitters": specs,
            "ops": ops}


def combos_dqd(kind, quick):
    """(call path x normalize_grad x dtype x layout) in full; the second emitter option (grad_opt /
    measure_gradients) is crossed in the thorough tier and rotated in the quick tier."""
    out = []
    i = 0
    for via in ("scheduler", "direct"):
        for norm in (True, False):
            for d in DTYPES:
                for L in LAYOUTS:
                    i += 1
                    for alt in ((i % 2 == 0,) if quick else (True, False)):
                        out.append((kind, via, norm, alt, d, L))
    return out


def gen_dqd(rng, c):
    kind, via, norm, alt, d, L = c
    spec = {"kind": kind, "normalize": norm}
    if kind == "ga":
        spec["grad_opt"] = "adam" if alt else "gradient_ascent"
        spec["restart"] = rng.choice(["no_improvement", "basic", 2])
    else:
        spec["measure_gradients"] = alt
    pre = [{"op": "add", "n": 3, "seed": rng.randrange(10**6), "layout": "exact"}]
    o = "dqd_round" if via == "scheduler" else "emitter_dqd"
    ops = pre + [{"op": o, "seed": rng.randrange(10**6), "layout": rand_layout(rng, DQD_ARGS)}
                 for _ in range(rng.randint(0, 1))]
    ops.append({"op": o, "seed": rng.randrange(10**6), "layout": L})
    ops.append({"op": o, "seed": rng.randrange(10**6), "layout": rand_layout(rng, DQD_ARGS)})
    case = {"arch": "grid", "dtype": d, "emitters": [spec], "ops": ops}
    if via == "scheduler":
        case["sched"] = "plain"
    return case


def combos_emitter_tell(quick):
    specs = [{"kind": "es"}, {"kind": "es", "ranker": "imp"}, {"kind": "es", "ranker": "obj", "es": "openai_es"},
             {"kind": "es", "ranker": "2rd", "restart": 1}, {"kind": "gauss"}, {"kind": "iso"}]
    if not quick:
        specs += [{"kind": "es", "ranker": "obj", "es": "sep_cma_es"},
                  {"kind": "es", "ranker": "2imp", "es": "lm_ma_es"}]
    return [(i, d, L) for i in range(len(specs)) for d in DTYPES for L in LAYOUTS], specs


def gen_emitter_tell(rng, c, specs):
    i, d, L = c
    ops = [{"op": "add", "n": 3, "seed": rng.randrange(10**6), "layout": "exact"}]
    ops += [{"op": "emitter_tell", "seed": rng.randrange(10**6), "layout": rand_layout(rng, DQD_ARGS)}
            for _ in range(rng.randint(0, 1))]
    ops.append({"op": "emitter_tell", "seed": rng.randrange(10**6), "layout": L})
    ops.append({"op": "emitter_tell", "seed": rng.randrange(10**6), "layout": rand_layout(rng, DQD_ARGS)})
    archs = ["grid", "grid", "cvt"] + ([] if specs[i].get("ranker") == "2rd" else ["prox_lc"])
    return {"arch": rng.choice(archs), "dtype": d, "emitters": [specs[i]], "ops": ops}


def combos_opt():
    return [(o, d, L) for o in ("adam", "ascent") for d in DTYPES for L in LAYOUTS]


def gen_opt(rng, c):
    o, d, L = c
    ops = [{"op": "step", "seed": rng.randrange(10**6), "layout": rand_layout(rng, ("gradient",))}
           for _ in range(rng.randint(0, 2))]
    ops.append({"op": "step", "seed": rng.randrange(10**6), "layout": L})
    ops.append({"op": "step", "seed": rng.randrange(10**6), "layout": rand_layout(rng, ("gradient",))})
    return {"opt": o, "dtype": d, "ops": ops}


def combos_viz(quick):
    """every function taking df= x frame class x (sort_archive) ; x dtype in the thorough tier, dtype rotated
    in the quick tier."""
    out = []
    for d in DTYPES:
        for fr in ("adf", "pdf"):
            for k in ("grid", "cvt", "sba"):
                for srt in (True, False):
                    out.append((k, "parallel_axes_plot", srt, fr, d))
            out.append(("grid", "grid_archive_heatmap", False, fr, d))
            out.append(("cvt", "cvt_archive_heatmap", False, fr, d))
            out.append(("sba", "sliding_boundaries_archive_heatmap", False, fr, d))
            out.append(("prox", "proximity_archive_plot", False, fr, d))
    if quick:
        half = len(out) // 2
        out = [out[i] if i % 2 == 0 else out[half + i] for i in range(half)]
    return out


def gen_viz(rng, c):
    k, fn, srt, fr, d = c
    ops = [{"op": "add", "n": 6, "seed": rng.randrange(10**6), "layout": "list" if k == "sba" else "exact"}] + \
        prefix_adds(rng, rng.randint(0, 2), k)
    ops.append({"op": "plot", "fn": fn, "sort": srt, "frame": fr})
    ops.append({"op": "data", "rt": "dict"})
    return {"arch": k, "dtype": d, "ops": ops}


def combos_ctor(quick):
    """(constructor x array-valued argument x layout) in full; x dtype in the thorough tier, dtype rotated in
    the quick tier."""
    base = [(t, a, L) for t, args in CTOR_ARGS.items() for a in args for L in LAYOUTS]
    if quick:
        return [(t, a, L, list(DTYPES)[i % 2]) for i, (t, a, L) in enumerate(base)]
    return [(t, a, L, d) for (t, a, L) in base for d in DTYPES]


def gen_ctor(rng, c):
    t, a, L, d = c
    first = {"op": "construct", "target": t, "arg": a, "layout": L, "seed": rng.randrange(10**6)}
    if t in ("cvt", "grid", "sba"):
        ops = [first] + prefix_adds(rng, rng.randint(2, 3), t) + [{"op": "data", "rt": "dict"}]
        case = {"dtype": d, "ops": ops}
        if rng.random() < 0.3:
            case["dims"] = [rng.randint(1, 5), rng.randint(1, 6), rng.randint(1, 4)]
        return case
    if t in ("adam", "ascent"):
        return {"dtype": d, "ops": [first] + [{"op": "step", "seed": rng.randrange(10**6), "layout": "list"}
                                              for _ in range(2)]}
    ops = [first, {"op": "ask_probe"}, {"op": "add", "n": 3, "seed": rng.randrange(10**6), "layout": "list"},
           {"op": "ask_probe"}, {"op": "data", "rt": "dict"}]
    return {"arch": rng.choice(["grid", "grid", "cvt"]), "dtype": d, "ops": ops}


def combos_helpers():
    names = ["validate_batch", "validate_single", "batch_entries_with_threshold", "single_entry_with_threshold",
             "compute_objective_sum", "compute_best_index"]
    return [(h, k, d, L) for h in names for k in ("grid", "grid_mae") for d in DTYPES for L in LAYOUTS]


def gen_helpers(rng, c):
    h, k, d, L = c
    ops = prefix_adds(rng, rng.randint(0, 2))
    ops.append({"op": "helper", "which": h, "n": rng.choice([1, 3, 4]), "seed": rng.randrange(10**6), "layout": L})
    ops.append({"op": "data", "rt": "dict"})
    return {"arch": k, "dtype": d, "ops": ops}


DIM_PROFILES = ["wide_solution", "wide_measures", "random"]


def pick_dims(rng, profile):
    """(solution_dim, measure_dim, extra length). The first two profiles put >= 11 components into every
    vector field between them (pandas column names name_10.. sort differently as text and as numbers); they
    occur for every class and dtype in every run. The third draws every length from 1..13."""
    if profile == "wide_solution":
        return [rng.choice([11, 12, 13]), rng.choice([1, 2, 3]), rng.choice([11, 12, 13])]
    if profile == "wide_measures":
        return [rng.choice([1, 2, 10]), rng.choice([11, 12, 13]), rng.choice([1, 10, 11])]
    return [rng.randint(1, MAX_DIM), rng.choice([1, 2, 3, 4, 5, rng.randint(6, MAX_DIM)]), rng.randint(1, MAX_DIM)]


def combos_readpaths(quick):
    """(class incl. store x dtype x dimension profile) in full; the object-field variant is crossed in the
    thorough tier and rotated in the quick tier (every class and dtype meets three of the four variants)."""
    kd = [(k, d) for k in ARCH_KINDS + ["store"] for d in DTYPES]
    if quick:
        return [(k, d, p, OBJ_VARIANTS[(pi + i) % 4]) for pi, p in enumerate(DIM_PROFILES)
                for i, (k, d) in enumerate(kd)]
    return [(k, d, p, o) for p in DIM_PROFILES for (k, d) in kd for o in OBJ_VARIANTS]


def gen_readpaths(rng, c):
    k, d, prof, o = c
    dims = pick_dims(rng, prof)
    if k == "store":
        ops = []
        for _ in range(rng.randint(1, 3)):
            ops += store_prefix(rng, 1) + [{"op": "readpaths"}]
        return with_obj({"store": True, "dtype": d, "dims": dims, "ops": ops}, o)
    ops = []
    for _ in range(rng.randint(1, 3)):
        ops += prefix_adds(rng, rng.randint(1, 2), k) + [{"op": "readpaths"}]
    if k == "sba":
        # past the next remaps: what the buffer re-adds must still be what was submitted
        ops += prefix_adds(rng, rng.randint(3, 6), k) + [{"op": "readpaths"}]
    return with_obj({"arch": k, "dtype": d, "dims": dims, "ops": ops}, o)


def nontrivial(case):
    seen_add = False
    for op in case["ops"]:
        lay = op.get("layout")
        lays = list(lay.values()) if isinstance(lay, dict) else [lay]
        if any(x in NOCOPY_LAYOUTS for x in lays) or (op["op"] in OUTPUT_OPS and seen_add):
            return True
        if op["op"] in ("add", "add_single", "store_add", "tell", "dqd_round", "emitter_tell", "emitter_dqd"):
            seen_add = True
    return False


def enumerating(ctx, name, combos, gen, n_cases):
    """gen_case for `ctx.explore`: case number idx gets combination idx mod len(combos), so the exhaustive
    combination list is walked once per `len(combos)` cases whatever process generates the case; the Random
    passed in chooses the callee state (prefix ops, seeds, mixed layouts). `explore` hands the generator only
    `ctx.rng(name, idx)`: idx is recovered from that generator's state."""
    import random as _random
    table = {}

    def first(r):
        probe = _random.Random()
        probe.setstate(r.getstate())
        return probe.random()

    def g(rng):
        if not table:
            for i in range(n_cases):
                table[first(ctx.rng(name, i))] = i
        idx = table.get(first(rng))
        if idx is None:  # not one of explore's generators (ad-hoc use): fall back to a draw
            idx = rng.randrange(len(combos))
        return gen(rng, combos[idx % len(combos)])

    return g


def strata(ctx):
    et_combos, et_specs = combos_emitter_tell(ctx.quick)
    return [
        # name, combos, generator, states per combo (quick, thorough), time budget (quick, thorough)
        ("archive.add", combos_archive_add(), gen_archive_add, (1, 8), (4, 50)),
        ("sliding.add", combos_sliding(ctx.quick), gen_sliding, (1, 6), (8, 60)),
        ("archive.read", combos_archive_read(), gen_archive_read, (1, 6), (5, 70)),
        ("archive.best_elite", combos_best(), gen_best, (1, 10), (3, 20)),
        ("archive.iter", combos_iter(), gen_iter, (1, 10), (3, 20)),
        ("store", combos_store(), gen_store, (1, 8), (3, 30)),
        ("scheduler.tell", combos_sched(ctx.quick), gen_sched, (1, 5), (8, 90)),
        ("scheduler.handout", combos_handout(ctx.quick), gen_handout, (1, 4), (8, 60)),
        ("dqd.arborescence", combos_dqd("ga", ctx.quick), gen_dqd, (1, 6), (4, 40)),
        ("dqd.operator", combos_dqd("go", ctx.quick), gen_dqd, (1, 6), (3, 40)),
        ("emitter.tell", et_combos, lambda rng, c: gen_emitter_tell(rng, c, et_specs), (1, 6), (3, 40)),
        ("opt.step", combos_opt(), gen_opt, (2, 20), (1, 10)),
        ("visualize.df", combos_viz(ctx.quick), gen_viz, (1, 4), (6, 80)),
        ("helpers", combos_helpers(), gen_helpers, (1, 5), (3, 30)),
        ("constructors", combos_ctor(ctx.quick), gen_ctor, (1, 5), (5, 40)),
        ("readpaths", combos_readpaths(ctx.quick), gen_readpaths, (1, 10), (4, 40)),
    ]


PUBLIC_ONLY_INTERNAL = {"SolutionBuffer.add"}  # exercised through SlidingBoundariesArchive.add_single only


def tie_tables(ctx):
    """The compiled machine agrees with the theorems' lists (names, negatives)."""
    L = lean()
    for name, bits, why in L.negatives():
        v = L.verdict(name, bits)
        if v != f"reject {why}":
            ctx.fail(Failure("corr", f"negative example {name} (bits {bits or '-'}): machine says {v!r}, "
                             f"listed rejection is {why}"), {"ops": [], "stratum": "tables", "negative": name})
    ctx.extra["transcribed_entry_points"] = sorted(L.entries)
    ctx.extra["negative_examples"] = [n for n, _, _ in L.negatives()]


def run(ctx):
    import os
    _CTX[0] = ctx
    try:
        tie_tables(ctx)
        # warm-up (numba compilation of numpy_groupies / CMA-ES kernels) outside the strata's time budgets
        run_case({"arch": "grid", "dtype": "f64", "sched": "plain", "emitters": EMITTER_SETS["es"],
                  "ops": [{"op": "tell", "seed": 1, "layout": "list"}]})
        # the open known finding D40: one deterministic case on every run
        d40 = {"ops": [{"op": "d40"}], "stratum": "known-findings"}
        f = run_case(d40)
        ctx.evaluations += 1
        ctx.count("known-findings")
        if f is not None:
            ctx.fail(f, d40)
        stopped = False
        for name, combos, gen, states, budget in strata(ctx):
            n = len(combos) * (states[0] if ctx.quick else states[1])
            n_cases = ctx.n(n, n)
            ctx.extra.setdefault("combinations", {})[name] = len(combos)
            t0 = time.time()
            ctx.explore(name, enumerating(ctx, name, combos, gen, n_cases), run_case, n_cases,
                        nontrivial=nontrivial, max_fail=1, time_budget=budget[0] if ctx.quick else budget[1])
            ctx.extra.setdefault("stratum_wall_s", {})[name] = round(time.time() - t0, 2)
            stopped = stopped or f"{name}:time-budget-stop" in ctx.dist or n_cases < len(combos)
        L = lean()
        used = {k[len("entry:"):] for k in ctx.dist if k.startswith("entry:")}
        missing = sorted(set(L.entries) - used - PUBLIC_ONLY_INTERNAL)
        # every transcription must be reached by some monitored call. Judged only on a complete enumeration:
        # quick tier (single process), full scale, no stratum cut short by its time budget or by a failure.
        complete = ctx.quick and not stopped and not ctx.failures and \
            float(os.environ.get("VERIF_SCALE", "1")) >= 1
        if missing:
            if complete:
                ctx.fail(Failure("corr", f"transcribed entry points never exercised at runtime: {missing}"),
                         {"ops": [], "stratum": "tables"})
            else:
                ctx.notes.append(f"transcriptions not exercised in this (shortened / parallel) run: {missing}")
    finally:
        lean_close()
        _CTX[0] = None


def replay(ctx, case):
    _CTX[0] = ctx
    try:
        if not case.get("ops"):
            tie_tables(ctx)
            return ctx.failures[-1][0] if ctx.failures else None
        return run_case(case)
    finally:
        lean_close()
