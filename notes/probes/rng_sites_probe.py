# scratch: how many random sites does a simple AST walk find in ribs/, and can provenance be classified?
import ast, pathlib, sys
ROOT = pathlib.Path(sys.argv[1] if len(sys.argv) > 1 else "/repo/ribs")
DRAWS = {"normal","standard_normal","uniform","integers","random","choice","permutation","shuffle","rand","randn","randint","seed","sample"}
LIBS = {"k_means":"random_state","Sobol":("seed","rng"),"Halton":("seed","rng"),"CMAEvolutionStrategy":None}
def dotted(n):
    if isinstance(n, ast.Name): return n.id
    if isinstance(n, ast.Attribute):
        b = dotted(n.value); return None if b is None else b + "." + n.attr
    return None
rows=[]
for f in sorted(ROOT.rglob("*.py")):
    tree = ast.parse(f.read_text())
    for fn in [n for n in ast.walk(tree) if isinstance(n,(ast.FunctionDef,))]:
        # roots: names derived from parameter `seed`
        seeded = {a.arg for a in fn.args.args + fn.args.kwonlyargs if a.arg == "seed"}
        changed=True
        while changed:
            changed=False
            for st in ast.walk(fn):
                if isinstance(st, ast.Assign):
                    used = {n.id for n in ast.walk(st.value) if isinstance(n, ast.Name)} | {dotted(n) for n in ast.walk(st.value) if isinstance(n, ast.Attribute)}
                    if used & seeded:
                        for t in st.targets:
                            for n in ast.walk(t):
                                nm = dotted(n) if isinstance(n,(ast.Name,ast.Attribute)) else None
                                if nm and nm not in seeded: seeded.add(nm); changed=True
        for c in [n for n in ast.walk(fn) if isinstance(n, ast.Call)]:
            name = dotted(c.func)
            if not name: continue
            last = name.split(".")[-1]
            kind=None; prov=None
            if name in ("np.random.default_rng","np.random.SeedSequence","numpy.random.default_rng"):
                kind="construct"; args=[a for a in c.args]+[k.value for k in c.keywords]
                used={dotted(n) for a in args for n in ast.walk(a) if isinstance(n,(ast.Name,ast.Attribute))}
                prov = "seeded" if used & seeded else ("fresh" if not args else "constant?")
            elif name.startswith("np.random.") or name.startswith("random."):
                kind="global-draw"; prov="global"
            elif last in DRAWS and ("_rng" in name or "rng" in name.split(".")[-2:-1]):
                kind="draw"; prov="own:"+name.rsplit(".",1)[0]
            elif last == "spawn":
                kind="spawn"; prov="seeded" if name.rsplit(".",1)[0] in seeded else "?"
            elif last in LIBS:
                kind="lib:"+last; kws={k.arg:k.value for k in c.keywords}
                want=LIBS[last]
                if last=="k_means":
                    prov="kwargs:"+("**" if any(k.arg is None for k in c.keywords) else "")  # random_state passed via self._k_means_kwargs
                elif want:
                    got=[kws[w] for w in want if w in kws]
                    if got:
                        used={dotted(n) for n in ast.walk(got[0]) if isinstance(n,(ast.Name,ast.Attribute))}
                        prov="seeded" if (used & seeded or any(u and u.endswith("_rng") for u in used)) else "unseeded-arg"
                    else:
                        scr=kws.get("scramble"); prov="deterministic" if (isinstance(scr,ast.Constant) and scr.value is False) else "fresh"
                else: prov="opts"
            if kind: rows.append((str(f.relative_to(ROOT.parent)), c.lineno, fn.name, kind, name, prov))
for r in rows: print(*r, sep=" | ")
print(len(rows),"sites")
