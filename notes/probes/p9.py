import numpy as np, warnings, pickle, random
from ribs.archives import GridArchive, CVTArchive, SlidingBoundariesArchive, ProximityArchive, ArrayStore
warnings.simplefilter("ignore")
print("== D18 CVT huge measures")
cent = np.array([[0.,0.],[1.,1.],[0.,1.]])
for kd in (True, False):
    a = CVTArchive(solution_dim=1, cells=3, ranges=[(0,1),(0,1)], custom_centroids=cent, use_kd_tree=kd)
    for m in [[0.9,0.9],[1e100,1e100],[1e200,1e200],[1e300,1e300],[-1e300,1e300],[1.7e308,1.7e308]]:
        try: print(kd, m, a.index_of(np.array([m])))
        except Exception as e: print(kd, m, "raised", type(e).__name__, e)
a = CVTArchive(solution_dim=1, cells=3, ranges=[(0,1),(0,1)], custom_centroids=cent, use_kd_tree=True)
try:
    print(a.add_single([1.], 1.0, [1e300,1e300]), len(a), a.data("index"))
except Exception as e: print("add_single huge raised", type(e).__name__, e)
print("== D19 best_elite alias")
a = GridArchive(solution_dim=2, dims=[4], ranges=[(0,1)])
a.add_single([1.,2.], 1.0, [0.1])
be = a.best_elite; be["solution"][:] = 99; be["objective"] = -5
print(a.best_elite, a.data("solution"))
print("== D20 iterator hands out views")
for e in a: e["solution"][:] = 77
print(a.data("solution"))
occ, r = a.retrieve_single([0.1]); r["solution"][:] = 55; print("after retrieve_single mutation", a.data("solution"))
s = a.sample_elites(2); s["solution"][:] = 44; print("after sample mutation", a.data("solution"))
print("== D21 SBA buffer_capacity=1")
try:
    a = SlidingBoundariesArchive(solution_dim=1, dims=[2], ranges=[(0,1)], remap_frequency=2, buffer_capacity=1)
    a.add_single([1.],1.0,[0.2]); a.add_single([2.],2.0,[0.7]); print("ok", a.boundaries, len(a))
except Exception as e: print("raised", type(e).__name__, e)
try:
    a = SlidingBoundariesArchive(solution_dim=1, dims=[2], ranges=[(0,1)], remap_frequency=3, buffer_capacity=2)
    for i,m in enumerate([0.2,0.7,0.4,0.9,0.1,0.3]): a.add_single([float(i)],float(i),[m])
    print("cap2 ok", a.boundaries, len(a), a.data("objective"))
except Exception as e: print("cap2 raised", type(e).__name__, e)
print("== C13 raw dict roundtrip")
st = ArrayStore({"objective": ((), np.float32), "measures": ((2,), np.float32)}, 5)
st.add([3,1], {"objective":[1.,2.], "measures":[[1,2],[3,4]]}, {}, [])
d = st.as_raw_dict()
st2 = ArrayStore.from_raw_dict(d)
print(len(st2), st2.occupied_list, st2.data())
try:
    st2.add([0], {"objective":[5.], "measures":[[0,0]]}, {}, [])
    print("add after from_raw_dict ok", len(st2), "orig len", len(st))
except Exception as e: print("add after from_raw_dict raised", type(e).__name__, e)
import io
buf = io.BytesIO(); np.savez(buf, **d); buf.seek(0)
st3 = ArrayStore.from_raw_dict(dict(np.load(buf)))
print("npz:", len(st3), type(len(st3)), st3.occupied_list, st3.capacity)
st3.add([0], {"objective":[5.], "measures":[[0,0]]}, {}, []); print(len(st3), st3.occupied_list)
st3.clear(); print("after clear", len(st3))
try:
    st3.resize(10); print("resize ok", st3.capacity)
except Exception as e: print("resize raised", type(e).__name__, e)
