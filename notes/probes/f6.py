import numpy as np, random, warnings, math
from ribs.archives import GridArchive
from ribs.emitters import EmitterBase
from ribs.schedulers import BanditScheduler
warnings.simplefilter("ignore")
class Spy(EmitterBase):
    def __init__(self, archive, i, has_restarts, rnd):
        super().__init__(archive, solution_dim=1, bounds=None); self.i=i; self.rnd=rnd; self.log=[]; self.n=None
        if has_restarts: self.restarts=0
    def ask(self):
        self.n=self.rnd.randint(0,3); self.log.append(("ask",self.n)); return np.full((self.n,1),float(self.i))
    def tell(self, solution, objective, measures, add_info, **f):
        self.log.append(("tell",len(solution), solution.ravel().tolist(), list(np.asarray(add_info.get("status",[])).tolist())))
        if hasattr(self,"restarts") and self.rnd.random()<0.3: self.restarts+=1
bad=0
for seed in range(1500):
    rnd=random.Random(seed)
    P=rnd.randint(1,6); A=rnd.randint(1,P); mode=rnd.choice(["terminated","all"]); zeta=rnd.choice([0.0,0.05,1.0])
    arch=GridArchive(solution_dim=1,dims=[8],ranges=[(0,8)])
    pool=[Spy(arch,i,rnd.random()<0.6,rnd) for i in range(P)]
    s=BanditScheduler(arch,pool,A,reselect=mode,zeta=zeta,add_mode=rnd.choice(["batch","single"]))
    sel=[0]*P; suc=[0]*P; prev_active=None
    for it in range(rnd.randint(1,12)):
        restarted=[hasattr(e,"restarts") and e.restarts>getattr(e,"_seen",0) for e in pool]
        sols=s.ask()
        act=np.where(s.active)[0].tolist()
        if len(act)!=A: print("NUMACTIVE",seed,it,act); bad+=1
        # check selection rule
        if prev_active is not None:
            if mode=="terminated":
                keep=[i for i in prev_active if hasattr(pool[i],"restarts") and not restarted[i]]
            else: keep=[]
            if any(i not in act for i in keep): print("KEEP",seed,it,prev_active,act,keep); bad+=1
            newly=[i for i in act if i not in keep]
            cand=[i for i in range(P) if i not in keep]
            T=sum(suc)
            def score(i):
                if sel[i]==0: return math.inf
                return suc[i]/sel[i]+zeta*math.sqrt(math.log(max(T,1))/sel[i])
            notchosen=[i for i in cand if i not in newly]
            if newly and notchosen and min(score(i) for i in newly) < max(score(i) for i in notchosen)-1e-12: print("UCB",seed,it,mode,[ (i,score(i)) for i in range(P)],"keep",keep,"act",act); bad+=1
        for e in pool: e._seen=getattr(e,"restarts",0)
        # which were asked
        asked=[e.i for e in pool if e.log and e.log[-1][0]=="ask" and e.log[-1] is not None and e._asked_it==it] if False else None
        exp=np.concatenate([np.full((pool[i].n,1),float(i)) for i in act]) if act else np.empty((0,1))
        if not np.array_equal(sols,exp): print("ASKROWS",seed,it); bad+=1
        n=len(sols)
        obj=np.array([rnd.randint(-3,3) for _ in range(n)],dtype=float); meas=np.array([[rnd.randrange(8)+0.5] for _ in range(n)]).reshape(n,1)
        # expected statuses using archive directly? just read back after tell from spies
        s.tell(obj,meas)
        pos=0
        for i in act:
            k=pool[i].n; lg=pool[i].log[-1]
            if lg[0]!="tell" or lg[1]!=k or lg[2]!=[float(i)]*k: print("TELLROWS",seed,it,i,lg); bad+=1
            sel[i]+=k; suc[i]+=sum(1 for x in lg[3] if x)
            pos+=k
        if s._selection.tolist()!=sel or s._success.tolist()!=suc: print("COUNTS",seed,it); bad+=1
        prev_active=act
    if bad>5: break
print("bandit bad",bad)
