"""Shared `translate` hook of the checks whose model formulas are tied to the source by the formula translator."""
import os
import time

import core
from translate import formulas, control

GEN_OUT = os.path.join(core.LEAN, "PyribsGen", "Formulas.lean")
GEN_CTL = os.path.join(core.LEAN, "PyribsGen", "Control.lean")


def translate(ctx):
    if os.environ.get("VERIF_NO_TRANSLATE") == "1":
        # (mutation runs test many source trees at once; they leave the shared generated file alone and judge with
        # the dynamic checks only)
        ctx.extra["formulas"] = {"skipped": "VERIF_NO_TRANSLATE=1"}
        return
    t0 = time.time()
    try:
        recs, changed = formulas.translate(core.REPO, GEN_OUT)
        crecs, cchanged = control.translate(core.REPO, GEN_CTL)
    except OSError as e:
        raise core.Infra(f"formula translator could not write {GEN_OUT}: {e}") from e
    ctx.extra["formulas"] = {
        "source_tree": core.REPO,
        "generated_file": "lean/PyribsGen/Formulas.lean",
        "generated_file_rewritten": changed,
        "translated": [{k: r[k] for k in ("name", "file", "func", "line", "python", "lean")} for r in recs if r["ok"]],
        "untranslatable": [{k: r[k] for k in ("name", "file", "func", "why")} for r in recs if not r["ok"]],
        "seconds": round(time.time() - t0, 3),
    }
    ctx.extra["control_flow"] = {
        "source_tree": core.REPO,
        "generated_file": "lean/PyribsGen/Control.lean",
        "generated_file_rewritten": cchanged,
        "translated": [{k: r[k] for k in ("name", "file", "func", "line", "python", "lean")} for r in crecs if r["ok"]],
        "untranslatable": [{k: r[k] for k in ("name", "file", "func", "why")} for r in crecs if not r["ok"]],
    }
