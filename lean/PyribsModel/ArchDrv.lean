import PyribsModel.Archive
import PyribsModel.GridIndex
/-! Line-protocol machine "arch": fixed-cell archives (grid / CVT / fixed sliding geometry). -/
namespace Pyribs.ArchDrv
open Pyribs Arch

inductive Route
  | grid (g : GridGeom)
  | cvt (cs : List (List Rat))
  | sb (g : SbGeom)

def Route.idx : Route → List Rat → Nat
  | .grid g, m => gridIdx g m
  | .cvt cs, m => (cvtIdx cs m).getD 0
  | .sb g, m => sbIdx g m

def Route.cells : Route → Nat
  | .grid g => Pyribs.cells g.dims
  | .cvt cs => cs.length
  | .sb g => Pyribs.cells g.dims

structure St where
  route : Route
  a     : Arch
  hist  : List (Nat × Cand)     -- routed candidates since the last clear (submission order)
  /-- half-width of the zone around a cell edge that floating-point rounding cannot resolve (C03's
  "may fall in either adjacent cell"); `0` = exact routing only -/
  rtol  : Rat := 0
  /-- measures whose cell the implementation resolved differently inside that zone (`pin`) -/
  pins  : List (List Rat × Nat) := []

def init : St := ⟨.cvt [], Arch.new ⟨1, none, 0⟩ 0, [], 0, []⟩

/-- A grid cell is admissible for `m` when in every dimension its coordinate lies between the
coordinates of `m − tol` and `m + tol` (the map is monotone in each coordinate, T03.2). -/
def gridAdmissible (g : GridGeom) (tol : Rat) (m : List Rat) (h : Nat) : Bool :=
  let lo := gridCoords g (m.map (· - tol))
  let hi := gridCoords g (m.map (· + tol))
  let hc := unravel g.dims h
  decide (h < cells g.dims) && hc.length == lo.length && hc.length == hi.length &&
    (hc.zip (lo.zip hi)).all (fun x => decide (x.2.1 ≤ x.1) && decide (x.1 ≤ x.2.2))

/-- routing: the exact map, except for measures pinned inside the rounding zone -/
def St.idxOf (st : St) (m : List Rat) : Nat :=
  match st.pins.find? (fun p => p.1 == m) with
  | some p => p.2
  | none => st.route.idx m

def parseCand (t : String) : Option Cand :=
  match t.splitOn ":" with
  | [tok, obj, meas] => do
    let tok ← tok.toNat?
    let obj ← parseRat obj
    let meas ← parseRatList meas
    pure ⟨tok, obj, meas⟩
  | _ => none

def parsePoints (s : String) : Option (List (List Rat)) :=
  if s = "-" then some [] else (s.splitOn ";").mapM parseRatList

def parseRoute (toks : List String) : Option Route := do
  let kind ← kv toks "kind"
  match kind with
  | "grid" =>
    let dims ← (kv toks "dims") >>= parseNatList
    let lo ← (kv toks "lo") >>= parseRatList
    let hi ← (kv toks "hi") >>= parseRatList
    let eps ← (kv toks "eps") >>= parseRat
    pure (.grid ⟨dims, lo, hi, eps⟩)
  | "cvt" =>
    let cs ← (kv toks "cents") >>= parsePoints
    pure (.cvt cs)
  | "sb" =>
    let dims ← (kv toks "dims") >>= parseNatList
    let bnds ← (kv toks "bnds") >>= parsePoints
    let lo ← (kv toks "lo") >>= parseRatList
    let hi ← (kv toks "hi") >>= parseRatList
    let eps ← (kv toks "eps") >>= parseRat
    pure (.sb ⟨dims, bnds, lo, hi, eps⟩)
  | _ => none

/-- `lr=none` means the constructor argument was not given -/
def parseCfg (toks : List String) : Option (Option Cfg) := do
  let lrS ← kv toks "lr"
  let lr ← if lrS = "none" then some none else (parseRat lrS).map some
  let tmin ← (kv toks "tmin") >>= parseNegInfRat
  let off ← (kv toks "off") >>= parseRat
  pure (mkCfg lr tmin off)

def showElite (i : Nat) (e : Elite) : String :=
  s!"{i}:{e.tok}:{showRat e.obj}:{showRat e.thr}"

def showCellOpt (i : Nat) : Option Elite → String
  | none => s!"{i}:none"
  | some e => showElite i e

def dump (a : Arch) : String :=
  let rows := a.store.olist.filterMap (fun i => (a.store.cells i).map (showElite i))
  let st := a.stats
  s!"len={a.store.len} olist={showNatList a.store.olist} data={if rows.isEmpty then "-" else String.intercalate ";" rows} " ++
  s!"num={st.numElites} objsum={showRat st.objSum} objmax={showOpt showRat st.objMax} " ++
  s!"best={showOpt (fun (b : Nat × Elite) => showElite b.1 b.2) st.best} " ++
  s!"qd={showRat a.qdScore} cov={showRat a.coverage} nqd={showRat a.normQd} mean={showOpt showRat a.objMean}"

/-- spec-shaped contents: per cell, `bestOf` of the candidates routed there since the last clear -/
def specContents (st : St) : String :=
  let cellsTouched := (List.range st.a.store.cap).filter (fun i => st.hist.any (fun r => r.1 == i))
  let rows := cellsTouched.filterMap (fun i =>
    (bestOf ((st.hist.filter (fun r => r.1 == i)).map (·.2))).map (fun c => s!"{i}:{c.tok}:{showRat c.obj}"))
  if rows.isEmpty then "-" else String.intercalate ";" rows

def step (st : St) (toks : List String) : St × String :=
  match toks with
  | "new" :: rest =>
    match parseRoute rest, parseCfg rest with
    | some r, some (some cfg) =>
      let rtol := ((kv rest "rtol") >>= parseRat).getD 0
      (⟨r, Arch.new cfg r.cells, [], rtol, []⟩, s!"ok cells={r.cells}")
    | some _, some none => (st, "err value")
    | _, _ => (st, "bad-op")
  | "add" :: rows =>
    match rows.mapM parseCand with
    | some cs =>
      let routed := cs.map (fun c => (st.idxOf c.meas, c))
      let (a', fb) := st.a.addBatch routed
      ({ st with a := a', hist := st.hist ++ routed },
       s!"cells={showNatList (routed.map (·.1))} status={showNatList (fb.map (·.1))} value={showRatList (fb.map (·.2))}")
    | none => (st, "bad-op")
  | ["add1", row] =>
    match parseCand row with
    | some c =>
      let r := (st.idxOf c.meas, c)
      let (a', fb) := st.a.addSingle r
      ({ st with a := a', hist := st.hist ++ [r] },
       s!"cells={r.1} status={fb.1} value={showRat fb.2}")
    | none => (st, "bad-op")
  | ["clear"] => ({ st with a := st.a.clear, hist := [] }, "ok")
  | ["setthr", c, t] =>
    -- resynchronise one threshold with the implementation's rounded value (rounded stream only)
    match c.toNat?, parseRat t with
    | some c, some t =>
      let cells' := fun i => if i = c then (st.a.store.cells i).map (fun e => { e with thr := t })
                             else st.a.store.cells i
      ({ st with a := { st.a with store := { st.a.store with cells := cells' } } }, "ok")
    | _, _ => (st, "bad-op")
  | ["state"] => (st, dump st.a)
  | ["spec"] => (st, specContents st)
  | "retrieve" :: ms =>
    match ms.mapM parseRatList with
    | some ms =>
      let idx := ms.map st.idxOf
      (st, String.intercalate " " ((idx.zip (st.a.retrieve idx)).map (fun p => showCellOpt p.1 p.2)))
    | none => (st, "bad-op")
  | "idx" :: ms =>
    match ms.mapM parseRatList with
    | some ms => (st, showNatList (ms.map st.idxOf))
    | none => (st, "bad-op")
  | ["pin", m, c] =>
    -- the implementation resolved `m` to cell `c`: accepted only inside the rounding zone of a grid
    match parseRatList m, c.toNat?, st.route with
    | some m, some c, .grid g =>
      if gridAdmissible g st.rtol m c then
        ({ st with pins := (m, c) :: st.pins.filter (fun p => !(p.1 == m)) }, "ok")
      else (st, "reject")
    | some _, some _, _ => (st, "reject")
    | _, _, _ => (st, "bad-op")
  | _ => (st, "bad-op")

end Pyribs.ArchDrv
