import numpy as np, warnings
from ribs.archives import GridArchive, ProximityArchive
from ribs.emitters import EvolutionStrategyEmitter, GaussianEmitter
from ribs.schedulers import Scheduler, BanditScheduler
warnings.simplefilter("ignore")
for mode in ("batch","single"):
    arch = ProximityArchive(solution_dim=2, measure_dim=2, k_neighbors=2, novelty_threshold=0.1)
    for E in ("es","gauss"):
        em = [EvolutionStrategyEmitter(arch, x0=[0,0], sigma0=0.5, ranker="nov", batch_size=4, seed=1)] if E=="es" else [GaussianEmitter(arch, sigma=0.5, x0=[0,0], batch_size=4, seed=1)]
        s = Scheduler(arch, em, add_mode=mode)
        try:
            for _ in range(3):
                sols = s.ask(); s.tell(None, sols.copy())
            print(mode, E, "ok len", len(arch))
        except Exception as e:
            print(mode, E, "raised", type(e).__name__, e)
