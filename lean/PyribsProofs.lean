import PyribsProofs.C13
import PyribsProofs.C17
import PyribsProofs.C10
import PyribsProofs.C04
