# scratch fuzz ArrayStore vs dict reference
import numpy as np, random, warnings
from ribs.archives import ArrayStore
warnings.simplefilter("ignore")
bad=0
for seed in range(2000):
    rnd=random.Random(seed)
    cap=rnd.choice([0,1,2,5,8])
    st=ArrayStore({"a":((),np.float64),"b":((2,),np.int32),"o":((),object),"h":((2,2),np.float32)},cap)
    ref={}; order=[]
    it=None; it_valid=None
    for step in range(rnd.randint(1,25)):
        r=rnd.random()
        if r<0.1:
            st.clear(); ref={}; order=[]
        elif r<0.25:
            newcap=st.capacity+rnd.randint(1,4); st.resize(newcap); cap=newcap
        elif r<0.3:
            try: st.resize(st.capacity); print("resize same cap should raise"); bad+=1
            except ValueError: pass
        else:
            n=rnd.randint(0,6) if cap>0 else 0
            idx=[rnd.randrange(cap) for _ in range(n)]
            vals=[rnd.randint(0,100) for _ in range(n)]
            nd={"a":np.array(vals,dtype=float),"b":np.array([[v,v+1] for v in vals],dtype=np.int32).reshape(n,2),"o":np.array([("t",v) for v in vals]+[None],dtype=object)[:n] if n else np.array([],dtype=object),"h":np.array([[[v,v],[v,v]] for v in vals],dtype=np.float32).reshape(n,2,2)}
            # object array creation care
            o=np.empty(n,dtype=object)
            for i,v in enumerate(vals): o[i]=("t",v)
            nd["o"]=o
            st.add(idx,nd,{},[])
            newly=sorted(set(i for i in idx if i not in ref))
            order+=newly
            for i,v in zip(idx,vals): ref[i]=v
        # check
        ok = len(st)==len(ref) and st.occupied_list.tolist()==order and st.occupied.tolist()==[i in ref for i in range(st.capacity)]
        d=st.data()
        ok = ok and d["index"].tolist()==order and d["a"].tolist()==[float(ref[i]) for i in order] and d["b"].tolist()==[[ref[i],ref[i]+1] for i in order] and [x for x in d["o"]]==[("t",ref[i]) for i in order] and d["h"].shape==(len(order),2,2)
        if st.capacity>0:
            q=[rnd.randrange(st.capacity) for _ in range(4)]
            occ,dat=st.retrieve(q)
            ok = ok and occ.tolist()==[i in ref for i in q] and all((not o_) or a_==ref[i] for o_,a_,i in zip(occ,dat["a"],q))
        if not ok:
            bad+=1; print("MISMATCH seed",seed,"step",step, len(st), len(ref), st.occupied_list.tolist(), order); break
print("bad",bad)
# iterator invalidation
st=ArrayStore({"a":((),np.float64)},4); st.add([1,2],{"a":[1.,2.]},{},[])
it=iter(st); next(it); st.resize(8)
try: print("after resize next:", next(it))
except RuntimeError as e: print("resize invalidates")
it=iter(st); st.add([],{"a":[]},{},[])
try: next(it); print("empty add does not invalidate")
except RuntimeError: print("empty add invalidates")
