"""C09 — seeded runs are reproducible and independent of global random state.

Two ties between the theorems of `PyribsProofs/C09.lean` and the current source:

(a) `translate(ctx)` regenerates `lean/PyribsGen/RngSites.lean` from the working
    tree (`harness/translate/rng_sites.py`): one record per random site with its
    provenance.  T09.3 `all_sites_seeded` and T09.4 `spawn_distinct` are `decide`d
    over that table, so a site that is `global` / `fresh` / `unclassified` is a
    broken proof obligation.

(b) `run(ctx)` = double runs of whole pipelines on the REAL implementation (there
    is no lock-step model to drive: the "correspondence" is that the translator's
    verdict "all seeded => reproducible" agrees with what is observed):
      (i)   the same pipeline twice, same seeds, under different global NumPy /
            Python random states, with different foreign draws from the global
            generators interleaved            -> every observable bit-identical;
      (ii)  interrupted by pickle.dumps/loads of the scheduler at a random
            iteration (pycma excluded; a few cases resume in a fresh process)
                                              -> bit-identical continuation;
      (iii) one seed changed -- for a spawned child seed: only the last child index, i.e.
            the sibling of the same parent    -> the first batch that component emits differs;
      (iv)  emitters given ONE shared es_kwargs dict object vs. separate equal dicts
                                              -> bit-identical; the caller's dict is unchanged;
      (vi)  a fresh interpreter with 8 OpenMP / BLAS threads (harness/c09_kmeans_probe.py) builds the
            k-means archive repeatedly for the seeds 0, np.int64(0), 1, SeedSequence(0)
                                              -> centroids bitwise equal per seed, different between seeds;
      (vii) the same pipeline, same seeds and evaluations, with calls that must be REFUSED interleaved (out of
            protocol order: scheduler ask after ask / tell without ask, GradientArborescenceEmitter.ask / tell
            before any gradients; malformed arguments: NaN / mis-shaped Jacobians, wrong-length or NaN objectives,
            solutions of the wrong dimension, to the emitters and the archive); every one raises, the caller
            carries on                        -> bit-identical to the run without them;
      (v)   k-means CVT archives (built with 8 OpenMP threads allowed, >= 1000 samples in the
            archives stratum) constructed 6 more times in the process -> centroids bitwise equal.
    Around every library call the states of `np.random` and `random` are compared
    before / after.

Oracle failures are concrete failing inputs (a pipeline description); the site
table is reported in the evidence (`rng_sites`).
"""
import copy
import hashlib
import json
import os
import pickle
import random
import re
import subprocess
import sys
import time
import warnings

import numpy as np

import core
from core import Failure

sys.path.insert(0, os.path.join(core.VERIF, "harness"))
from translate import rng_sites  # noqa: E402  pylint: disable=wrong-import-position

ID = "C09"
PROOF_MODULES = ["PyribsGen.RngSites", "PyribsProofs.C09"]
THEOREMS = [
    "Pyribs.C09.execLib_ok",
    "Pyribs.C09.run_eq_runObj",
    "Pyribs.C09.noninterference",
    "Pyribs.C09.noninterference_global_unchanged",
    "Pyribs.C09.noninterference_prog",
    "Pyribs.C09.continuation_state_only",
    "Pyribs.C09.pickle_continuation",
    "Pyribs.C09.pickle_continuation_prog",
    "Pyribs.C09.all_sites_seeded",
    "Pyribs.C09.all_spawns_separated",
    "Pyribs.C09.spawn_distinct",
    "Pyribs.C09.generated_run_noninterfering",
    "Pyribs.C09.generated_prog_noninterfering",
    "Pyribs.C09.generated_pickle_continuation",
    "Pyribs.C09.nonvacuous",
    "Pyribs.C09.nonvacuous_same_lib",
    "Pyribs.C09.unseeded_site_interferes",
    "Pyribs.C09.spawn_check_sensitive",
    "Pyribs.C09.entropy_only_collapses_siblings",
    "Pyribs.C09.escaped_seed_not_seeded",
]
TECHNIQUE = ("Lean 4 proof of non-interference over an abstract trace/program semantics of random sites + "
             "AST translator regenerating the site table on every run (decide over the generated table) + "
             "double runs of whole pipelines on the real implementation")
LEVEL_TEXT = ("proof (non-interference, pickle continuation: all traces / programs / global states / entropy "
              "streams / foreign interleavings) tied to the source by the regenerated site table; the table's "
              "library-API knowledge and 'different seeds differ' are checked by bounded double runs only")
RULE = ("whole pipelines = archive kind (Grid, CVT x {kmeans, random, sobol, scrambled_sobol, halton, custom}, "
        "SlidingBoundaries, Proximity) x 1-3 emitters (EvolutionStrategy x 5 strategies x rankers, "
        "GradientArborescence, GradientOperator, Gaussian, IsoLine, GeneticAlgorithm) x {Scheduler, "
        "BanditScheduler} x {int, 0 and np.int64(0) (at a fixed position for every seeded component), int >= 2**32, "
        "root SeedSequence, spawned child / grandchild "
        "SeedSequence(x).spawn(n)[i]} seeds for "
        "every component (built anew per run), 2-8 iterations; each case is run 5 times (two global "
        "states with different interleaved foreign draws -- the second run also reads every read-only property, "
        "stats and a CQD score for given target points between the calls --, with refused calls interleaved (out of "
        "protocol order / malformed arguments, before the first ask and between ask and tell of every iteration), "
        "pickled at a random iteration, one seed changed), and "
        "pipelines whose emitters are configured through es_kwargs (None / one dict each / ONE dict object shared "
        "by all emitters) a fifth time with separate equal dicts; a "
        "case is non-trivial when it has >= 2 iterations, the two runs' foreign draws differ, and every run "
        "completed without a rejection; counted once per distinct pipeline description")
PARTIAL = [
    "'components given different seeds draw different streams' is a statistical fact about PCG64 / "
    "SeedSequence: observed in every (iii) run, not proved",
    "randomness inside libraries (k-means random_state, QMC seed/rng, pycma randn) is trusted through the "
    "translator's API table; the double runs are what would expose an error in that table",
    "hand-off of the seed between functions (e.g. a subclass forgetting to pass `seed` on) is outside the "
    "intra-procedural def-use pass; only an unused `seed` parameter is flagged statically, the rest is left to "
    "the double runs",
]
ASSUMPTIONS = [
    "a generator / bit generator / SeedSequence is a deterministic state machine (draw : state -> value x state)",
    "everything a pipeline carries between calls lives in the pickled object graph (checked by (ii), incl. "
    "fresh-process resumption)",
    "the evaluation function is deterministic (objective -|x|^2, measures = first two coordinates)",
    "excluded: pickling of pipelines containing the pycma wrapper (excluded by the property)",
    "every generated pipeline is a valid configuration: an exception raised by pyribs or a library underneath it "
    "(e.g. a seed that numpy accepts being refused) is a failing input, not a skipped case",
]
TRUSTED_EXTRA = [
    "harness/translate/rng_sites.py: AST walk, import resolution, def-use pass and its table of random-capable "
    "library APIs (numpy.random, random, scipy.stats.qmc, sklearn, cma, secrets, os.urandom, uuid)",
]

D = 4  # solution_dim
TIGHT_BOUNDS = (-0.35, 0.65)  # around every x0 used (0.1 .. 0.5), narrow against sigma0 = 0.5: most samples are
#                               out of bounds, so the strategies' resampling loops run in every ask()
KMEANS_REBUILDS = 6  # extra constructions of a k-means archive per case (besides the runs of the case)
CVT_METHODS = ["kmeans", "random", "sobol", "scrambled_sobol", "halton", "custom"]
ES_NAMES = ["cma_es", "sep_cma_es", "lm_ma_es", "openai_es", "pycma_es"]
RANKERS = ["imp", "2imp", "rd", "2rd", "obj", "2obj"]
GEN_OUT = os.path.join(core.LEAN, "PyribsGen", "RngSites.lean")

# --------------------------------------------------------------------------
# (a) translator


def translate(ctx):
    t_start = time.time()
    # mutation runs (VERIF_NO_TRANSLATE=1) test many source trees at once: they classify the sites of their tree but
    # leave the shared generated Lean file alone
    out = GEN_OUT if os.environ.get("VERIF_NO_TRANSLATE") != "1" else f"{GEN_OUT}.scratch{os.getpid()}"
    try:
        sites, spawns, changed = rng_sites.translate(core.REPO, out)
    except (SyntaxError, FileNotFoundError, OSError) as e:
        raise core.Infra(f"translator could not read {core.REPO}/ribs: {e}") from e
    finally:
        if out != GEN_OUT and os.path.exists(out):
            os.remove(out)
    bad = [s for s in sites if not rng_sites.seeded(s)]
    badsp = [sp for sp in spawns if not rng_sites.spawn_separated(sp)]
    by_prov, by_kind = {}, {}
    for s in sites:
        by_prov[s["prov"][0]] = by_prov.get(s["prov"][0], 0) + 1
        by_kind[s["kind"]] = by_kind.get(s["kind"], 0) + 1
    ctx.extra["rng_sites"] = {
        "source_tree": core.REPO,
        "count": len(sites),
        "by_provenance": by_prov,
        "by_kind": by_kind,
        "spawn_sites": [{"file": sp["file"], "line": sp["line"], "n": sp["n"],
                         "consumers": [list(c) for c in sp["consumers"]]} for sp in spawns],
        "not_seeded": [f"{s['file']}:{s['line']} {s['api']} [{s['prov'][0]}] {s['note']}" for s in bad],
        "spawns_not_separated": [f"{sp['file']}:{sp['line']}" for sp in badsp],
        "generated_file_rewritten": changed,
    }
    ctx.c09_bad_sites = bad
    ctx.c09_bad_spawns = badsp
    ctx.extra["phase_seconds"] = {"translate": round(time.time() - t_start, 2)}
    ctx.c09_t_translated = time.time()
    for s in bad:
        ctx.notes.append(f"site not seeded: {s['file']}:{s['line']} {s['api']} -> {s['prov'][0]} ({s['note']})")
    for sp in badsp:
        ctx.notes.append(f"spawn children not separated: {sp['file']}:{sp['line']} {sp['consumers']}")


# --------------------------------------------------------------------------
# pipeline construction (real pyribs)


class _SpyMixin:
    """Records the add feedback handed to the emitter (public EmitterBase.tell API)."""

    def _c09_note(self, add_info, solution, how):
        self.__dict__.setdefault("_c09_log", []).append(
            {k: np.array(v, copy=True) for k, v in sorted(add_info.items())})
        # the batches this emitter itself emitted (its own slice of ask() / ask_dqd(), as handed back to it)
        self.__dict__.setdefault("_c09_sols", []).append((how, np.array(solution, copy=True)))

    def tell(self, solution, objective, measures, add_info, **fields):
        self._c09_note(add_info, solution, "ask")
        return super().tell(solution, objective, measures, add_info, **fields)

    def tell_dqd(self, solution, objective, measures, jacobian, add_info, **fields):
        self._c09_note(add_info, solution, "ask_dqd")
        return super().tell_dqd(solution, objective, measures, jacobian, add_info, **fields)


_SPY = {}


def _spy(cls):
    """Module-level (picklable) subclass of an emitter class that also logs its add feedback."""
    name = "Spy" + cls.__name__
    if name not in _SPY:
        _SPY[name] = type(name, (_SpyMixin, cls), {"__module__": __name__, "__qualname__": name})
        globals()[name] = _SPY[name]
    return _SPY[name]


def _init_spies():
    import ribs.emitters as E
    for n in ("EvolutionStrategyEmitter", "GradientArborescenceEmitter", "GradientOperatorEmitter",
              "GaussianEmitter", "IsoLineEmitter", "GeneticAlgorithmEmitter"):
        _spy(getattr(E, n))


def seed_kind(spec):
    """'int' | 'SeedSequence' (a root) | 'child' (obtained by spawn, possibly nested)."""
    if spec.get("child"):
        return "child"
    if spec.get("ss"):
        return "SeedSequence"
    if spec.get("seed", 1) == 0:
        return "np.int64(0)" if spec.get("np") else "0"  # the falsy seeds: `if seed:` / `seed or ...` lose them
    return "bigint" if spec.get("seed", 0) >= 2**32 else "int"  # bigint: an int that does not fit in 32 bits


def mkseed(v, spec, sibling=False):
    """The seed object of a component, built anew for every run (spawn() mutates the SeedSequence it is
    called on).  spec['child'] = [[n0, i0], [n1, i1], ...] means SeedSequence(v).spawn(n0)[i0].spawn(n1)[i1]...;
    `sibling` moves the last index to the next sibling of the same parent (run (iii))."""
    path = spec.get("child")
    if path:
        s = np.random.SeedSequence(v)
        for d, (n, i) in enumerate(path):
            if sibling and d == len(path) - 1:
                i = (i + 1) % n
            s = s.spawn(n)[i]
        return s
    if spec.get("ss"):
        return np.random.SeedSequence(v)
    return np.int64(v) if spec.get("np") else v


def make_archive(spec, seed, sibling=False, kmkw=None):
    from ribs.archives import CVTArchive, GridArchive, ProximityArchive, SlidingBoundariesArchive
    rng2 = [(-2.0, 2.0), (-2.0, 2.0)]
    s = mkseed(seed, spec, sibling)
    kind = spec["kind"]
    if kind == "grid":
        kw = {}
        if spec.get("lr") is not None:
            kw = {"learning_rate": spec["lr"], "threshold_min": -30.0}
        return GridArchive(solution_dim=D, dims=[6, 6], ranges=rng2, seed=s, **kw)
    if kind == "cvt":
        m = spec["method"]
        kw = {"use_kd_tree": bool(spec.get("kd", True))}
        if m == "custom":
            g = np.linspace(-1.5, 1.5, 4)
            cent = np.array([[a, b] for a in g for b in g][:12])
            return CVTArchive(solution_dim=D, cells=12, ranges=rng2, seed=s, custom_centroids=cent, **kw)
        if m == "kmeans" and spec.get("kmkw") is not None:
            # user options (random_state stays the default); `kmkw`: the caller's dict object
            kw["k_means_kwargs"] = kmkw if kmkw is not None else copy.deepcopy(spec["kmkw"])
        if m == "kmeans":
            # the user's process has as many OpenMP threads as cores (`./check` pins OMP_NUM_THREADS=1 for speed;
            # threadpoolctl raises the limit at run time): scikit-learn's k-means then sums over the samples in a
            # scheduling-dependent order, visible in the last bits from a few hundred samples on
            from threadpoolctl import threadpool_limits
            with threadpool_limits(limits=8, user_api="openmp"):
                return CVTArchive(solution_dim=D, cells=12, ranges=rng2, seed=s, centroid_method=m,
                                  samples=int(spec.get("samples", 160)), **kw)
        return CVTArchive(solution_dim=D, cells=12, ranges=rng2, seed=s, centroid_method=m, samples=160, **kw)
    if kind == "sliding":
        return SlidingBoundariesArchive(solution_dim=D, dims=[5, 5], ranges=rng2, seed=s, remap_frequency=9,
                                        buffer_capacity=40)
    if kind == "proximity":
        if spec.get("coarse"):  # few, far-apart elites: most candidates compete with (and replace) a neighbour
            return ProximityArchive(solution_dim=D, measure_dim=2, k_neighbors=1, novelty_threshold=1.0, seed=s,
                                    initial_capacity=4, local_competition=bool(spec.get("lc", False)))
        return ProximityArchive(solution_dim=D, measure_dim=2, k_neighbors=2, novelty_threshold=0.15, seed=s,
                                initial_capacity=4, local_competition=bool(spec.get("lc", False)))
    raise ValueError(kind)


def ranker_arg(spec):
    """The `ranker` argument in the form the case asks for: abbreviation, full class name, or the class itself
    (all three are documented; the emitter hands each of them the child seed it spawned for the ranker)."""
    form = spec.get("rform", "abbr")
    if form == "abbr":
        return spec["ranker"]
    from ribs.emitters import rankers as R
    cls = R._NAME_TO_RANKER_MAP[spec["ranker"]]   # pylint: disable=protected-access
    return cls.__name__ if form == "full" else cls


KEEP = object()


def build_es_kwargs(case, separate=False):
    """The `es_kwargs` argument of every emitter: None, or a dict built from spec['eskw'] (JSON).

    With case['eskw_shared'] (and not `separate`) emitters whose spec['eskw'] are equal receive ONE and the
    same dict object, as a caller who writes `kw = {...}; [Emitter(..., es_kwargs=kw) for ...]` does; otherwise
    every emitter gets its own equal dict.  Returns (list of arguments, list of (object, pristine copy, users))."""
    args, owned, by_content = [], [], {}
    share = bool(case.get("eskw_shared")) and not separate
    for k, e in enumerate(case["emitters"]):
        kw = e.get("eskw") if e["kind"] in ("es", "ga") else None
        if kw is None:
            args.append(None)
            continue
        key = json.dumps(kw, sort_keys=True)
        if share and key in by_content:
            obj, users = by_content[key]
            users.append(k)
        else:
            obj, users = copy.deepcopy(kw), [k]
            by_content[key] = (obj, users)
            owned.append((obj, copy.deepcopy(kw), users))
        args.append(obj)
    return args, owned


def build_config(case, eseeds, sib=-1, separate=False):
    """The configuration OBJECTS a caller would write down once and build his pipeline(s) from: es_kwargs (per
    emitter or shared), operator_kwargs of the GeneticAlgorithmEmitter (the one emitter whose seed travels inside
    a dict), the bounds lists, the archive's k_means_kwargs.  run_case builds them once per case and constructs
    BOTH runs of the same-seed comparison (and the pickled / fresh-process runs) from these same objects: building a
    pipeline must leave them as they were.  Returns {'es': [...], 'op': [...], 'bounds': [...], 'kmkw': obj,
    'owned': [(object, pristine copy, label)]}."""
    es_args, es_owned = build_es_kwargs(case, separate)
    owned = [(o, p_, f"es_kwargs dict of emitter(s) {u}") for o, p_, u in es_owned]
    op, bounds = [], []
    for k, e in enumerate(case["emitters"]):
        okw = None
        if e["kind"] == "gen":
            sd = mkseed(eseeds[k], e, sib == k + 1)
            okw = ({"sigma": 0.3, "seed": sd} if e.get("op", "gaussian") == "gaussian"
                   else {"iso_sigma": 0.05, "line_sigma": 0.3, "seed": sd})
            owned.append((okw, dict(okw), f"operator_kwargs dict of emitter {k}"))
        op.append(okw)
        box = ([tuple(TIGHT_BOUNDS)] * D if e.get("bounds") == "tight" else [(-3, 3)] * D if e.get("bounds")
               else None)
        if box is not None:
            owned.append((box, list(box), f"bounds list of emitter {k}"))
        bounds.append(box)
    kmkw = None
    a = case["archive"]
    if a["kind"] == "cvt" and a.get("method") == "kmeans" and a.get("kmkw") is not None:
        kmkw = copy.deepcopy(a["kmkw"])
        owned.append((kmkw, copy.deepcopy(kmkw), "k_means_kwargs dict of the archive"))
    return {"es": es_args, "op": op, "bounds": bounds, "kmkw": kmkw, "owned": owned}


RANDOM_KEYS = {"seed", "randn", "rng", "random_state", "generator"}


def canon_value(v):
    """Comparable form of a configuration value (a SeedSequence has no __eq__)."""
    if isinstance(v, np.random.SeedSequence):
        return ("SeedSequence", repr(v.entropy), tuple(v.spawn_key), v.pool_size, v.n_children_spawned)
    if isinstance(v, np.generic):
        return (type(v).__name__, v.item())
    return (type(v).__name__, v)


def dict_changes(obj, pristine, prefix=""):
    if isinstance(obj, list):
        return [] if obj == pristine else [(prefix + "list contents changed", False)]
    return _dict_changes(obj, pristine, prefix)


def _dict_changes(obj, pristine, prefix=""):
    """Entries of a caller-owned (possibly nested) dict that differ from its pristine copy:
    list of (path, carries random material)."""
    out = []
    for key in sorted(set(obj) | set(pristine), key=str):
        path = f"{prefix}{key}"
        if key not in pristine:
            v = obj[key]
            rnd = str(key) in RANDOM_KEYS or callable(v) or isinstance(
                v, (np.random.Generator, np.random.SeedSequence, np.random.BitGenerator, np.random.RandomState))
            out.append((path + " added", rnd))
        elif key not in obj:
            out.append((path + " removed", str(key) in RANDOM_KEYS))
        elif isinstance(obj[key], dict) and isinstance(pristine[key], dict):
            out += _dict_changes(obj[key], pristine[key], path + ".")
        else:
            a, b = canon_value(obj[key]), canon_value(pristine[key])
            same = a == b or (a[0] == b[0] and a[1] != a[1] and b[1] != b[1])
            if not same:
                out.append((path + " changed", str(key) in RANDOM_KEYS))
    return out


def make_emitter(spec, archive, seed, k, sibling=False, es_kwargs=None, op_kwargs=None, bounds=KEEP):
    """`es_kwargs`, `op_kwargs`, `bounds`: the caller's configuration objects (see build_config); by default
    fresh ones are made here."""
    import ribs.emitters as E
    s = mkseed(seed, spec, sibling)
    x0 = np.full(D, 0.1 * (k + 1))
    kind = spec["kind"]
    if kind == "es":
        return _spy(E.EvolutionStrategyEmitter)(
            archive, x0=x0, sigma0=0.5, ranker=ranker_arg(spec), es=spec["es"], selection_rule=spec.get("sel", "filter"),
            restart_rule=spec.get("restart", "no_improvement"), batch_size=spec.get("batch", 4), seed=s,
            es_kwargs=es_kwargs,
            bounds=bounds if bounds is not KEEP else [tuple(TIGHT_BOUNDS)] * D if spec.get("bounds") == "tight"
            else None)
    if kind == "ga":
        return _spy(E.GradientArborescenceEmitter)(
            archive, x0=x0, sigma0=0.5, lr=0.1, ranker=ranker_arg(spec), es=spec["es"],
            grad_opt=spec.get("grad_opt", "adam"), normalize_grad=bool(spec.get("norm", True)),
            selection_rule=spec.get("sel", "filter"), restart_rule=spec.get("restart", "no_improvement"),
            batch_size=spec.get("batch", 4), seed=s, es_kwargs=es_kwargs)
    if kind == "gop":
        # the iso_line_dd operator samples elites in ask_dqd and therefore needs initial_solutions, not x0
        init = spec.get("start", "init" if spec.get("op") == "iso_line_dd" else "x0") == "init"
        start = {"initial_solutions": np.array([x0, x0 + 0.5, x0 - 0.7])} if init else {"x0": x0}
        return _spy(E.GradientOperatorEmitter)(
            archive, sigma=0.1, sigma_g=0.2, line_sigma=spec.get("line", 0.0), **start,
            measure_gradients=bool(spec.get("mg", False)), normalize_grad=bool(spec.get("norm", False)),
            operator_type=spec.get("op", "isotropic"), batch_size=spec.get("batch", 3), seed=s)
    box = bounds if bounds is not KEEP else (
        [tuple(TIGHT_BOUNDS)] * D if spec.get("bounds") == "tight" else [(-3, 3)] * D if spec.get("bounds") else None)
    if kind == "gauss":
        return _spy(E.GaussianEmitter)(archive, sigma=0.3, x0=x0, batch_size=spec.get("batch", 3), seed=s,
                                       bounds=box)
    if kind == "iso":
        return _spy(E.IsoLineEmitter)(archive, x0=x0, iso_sigma=0.05, line_sigma=0.3, batch_size=spec.get("batch", 3),
                                      seed=s, bounds=box)
    if kind == "gen":
        if op_kwargs is not None:
            okw = op_kwargs  # the caller's dict object; its seed was built by build_config
        elif spec.get("op", "gaussian") == "gaussian":
            okw = {"sigma": 0.3, "seed": s}
        else:
            okw = {"iso_sigma": 0.05, "line_sigma": 0.3, "seed": s}
        return _spy(E.GeneticAlgorithmEmitter)(archive, x0=x0, operator=spec.get("op", "gaussian"),
                                               operator_kwargs=okw, batch_size=spec.get("batch", 3), bounds=box)
    raise ValueError(kind)


def evaluate(sols, mode=None):
    """Deterministic evaluation: objective -|x|^2 (mode 'ridge': x0 + x1 - x2^2 - x3^2, increasing along the
    measures, so that better solutions keep appearing at the edge of the archive); measures = first two coordinates."""
    sols = np.asarray(sols, dtype=np.float64)
    if mode == "ridge":
        return np.sum(sols[:, :2], axis=1) - np.sum(sols[:, 2:]**2, axis=1), sols[:, :2].copy()
    return -np.sum(sols**2, axis=1), sols[:, :2].copy()


def jacobian(sols, mode=None):
    sols = np.asarray(sols, dtype=np.float64)
    n = len(sols)
    jac = np.zeros((n, 3, D))
    jac[:, 0, :] = -2.0 * sols
    if mode == "ridge":
        jac[:, 0, :2] = 1.0
    jac[:, 1, 0] = 1.0
    jac[:, 2, 1] = 1.0
    return jac


# --------------------------------------------------------------------------
# observation


def digest(x):
    a = np.ascontiguousarray(np.asarray(x))
    if a.dtype == object:
        return ("object", a.shape, repr(a.tolist()))
    return (str(a.dtype), a.shape, hashlib.sha1(a.tobytes()).hexdigest())


def excerpt(x):
    a = np.asarray(x)
    flat = a.ravel()[:4]
    return f"{a.dtype}{list(a.shape)} {[float(v) if a.dtype.kind in 'fiu' else repr(v) for v in flat]}"


def gstate():
    st = np.random.get_state()
    return (st[0], hashlib.sha1(st[1].tobytes()).hexdigest(), int(st[2]), int(st[3]), float(st[4]),
            hashlib.sha1(repr(random.getstate()).encode()).hexdigest())


class Obs:
    """Observation log of one run: labelled digests + which library call disturbed the global generators."""

    def __init__(self):
        self.items = []  # (label, digest, excerpt)
        self.disturbed = None
        self.error = None
        self.active = {}  # emitter index -> rows told
        self.first_batch = {}  # emitter index -> digest of the first non-empty batch it emitted through ask()
        self.kw_modified = None  # (when, [(entry, carries random material)]) for a caller-owned es_kwargs dict
        self.refused = 0  # run 'r': calls that raised and were caught by the caller
        self.unrefused = None  # run 'r': label of the first malformed / out-of-order call that did NOT raise

    def put(self, label, x):
        self.items.append((label, digest(x), excerpt(x)))

    def guard(self, label):
        return _Guard(self, label)

    def check_owned(self, owned, when):
        """The caller's es_kwargs dicts must still be what the caller built."""
        if self.kw_modified is not None:
            return
        for obj, pristine, label in owned:
            ch = dict_changes(obj, pristine)
            if ch:
                self.kw_modified = (when, ch, label)
                return


class _Guard:

    def __init__(self, obs, label):
        self.obs, self.label = obs, label

    def __enter__(self):
        self.before = gstate()

    def __exit__(self, et, ev, tb):
        if gstate() != self.before and self.obs.disturbed is None:
            self.obs.disturbed = self.label
        return False


def foreign(counts):
    """Foreign code drawing from / reseeding the process-wide generators."""
    n_np, n_py, reseed = counts
    if reseed is not None:
        np.random.seed(reseed)
        random.seed(reseed + 1)
    if n_np:
        np.random.rand(n_np)
    for _ in range(n_py):
        random.random()


def observe_archive(obs, tag, archive, draw=True):
    data = archive.data()
    order = np.argsort(np.asarray(data["index"]), kind="stable")
    for k in sorted(data):
        obs.put(f"{tag}.data.{k}", np.asarray(data[k])[order])
    st = archive.stats
    obs.put(f"{tag}.stats", np.array([st.num_elites, st.coverage, st.qd_score, st.norm_qd_score,
                                      np.nan if st.obj_max is None else st.obj_max,
                                      np.nan if st.obj_mean is None else st.obj_mean], dtype=np.float64))
    if draw and not archive.empty:
        obs.put(f"{tag}.sample_elites.index", archive.sample_elites(16)["index"])


def emitters_of(sched):
    return list(sched.emitters) if hasattr(sched, "emitters") else list(sched.emitter_pool)


def look_around(sched):
    """The observer of run B: READS public, read-only things of a running pipeline, as logging / plotting code
    does between the calls.  Nothing here draws random numbers or is documented to change state, so run B must stay
    bit-identical to run A, which never looks."""
    def peek(obj, names):
        for nm in names:
            try:
                v = getattr(obj, nm)
                if nm in ("data",):
                    v = v()
                if isinstance(v, np.ndarray):
                    v = v.sum() if v.dtype.kind in "fiub" else len(v)
            except Exception:  # pylint: disable=broad-except
                pass  # e.g. the bounds of an empty ProximityArchive: reading may be refused, it must not matter

    archives = [sched.archive] + ([sched.result_archive] if sched.result_archive is not sched.archive else [])
    for a in archives:
        peek(a, ["upper_bounds", "lower_bounds", "stats", "best_elite", "empty", "cells", "solution_dim",
                 "measure_dim", "dtypes", "field_list", "learning_rate", "threshold_min", "qd_score_offset", "data",
                 "centroids", "boundaries", "dims", "interval_size", "capacity", "k_neighbors", "novelty_threshold",
                 "local_competition", "remap_frequency", "buffer_capacity", "samples"])
        try:
            len(a)
            for _ in zip(range(2), a):
                pass
        except Exception:  # pylint: disable=broad-except
            pass
        try:
            # the CQD score for target points the caller supplies (nothing is drawn); dist_max defaults to the
            # extent of the archive's bounds
            a.cqd_score(1, np.array([[[0.25, -0.5], [-1.0, 1.0]]]), 2, -40.0, 4.0)
        except Exception:  # pylint: disable=broad-except
            pass
    for em in emitters_of(sched):
        peek(em, ["x0", "batch_size", "restarts", "itrs", "lower_bounds", "upper_bounds", "solution_dim", "archive",
                  "sigma", "sigma0", "iso_sigma", "line_sigma", "initial_solutions", "epsilon", "sigma_g"])
    peek(sched, ["emitters", "emitter_pool", "active", "archive", "result_archive"])


def ribs_class(em):
    """the library class of an emitter (the spy subclass logs what it is told; a refused call must not be logged)"""
    return next(c for c in type(em).__mro__ if c.__module__.startswith("ribs."))


def refused_calls(obs, sched, case, it, pos):
    """Run 'r': calls that the pipeline must REFUSE, made by a caller who catches the error and carries on -- calls out
    of protocol order (scheduler and GradientArborescenceEmitter) and calls with malformed arguments (emitters,
    archive).  `pos`: 'pre' = before the iteration's first ask, 'mid' = between ask() and tell().  Which calls are
    made is a function of (case['rej'], it, pos) alone.  Nothing is observed here: a refused call must leave every
    later observable of the run as it is in the run that never made it."""
    rr = random.Random(f"{case.get('rej', 0)}/{it}/{pos}")
    dqd = any(e["kind"] in ("ga", "gop") for e in case["emitters"])
    ems = emitters_of(sched)
    archive = sched.archive

    def attempt(label, fn):
        with obs.guard(f"refused call {label} [{it}/{pos}]"):
            try:
                fn()
            except Exception:  # pylint: disable=broad-except
                obs.refused += 1
                return
        if obs.unrefused is None:
            obs.unrefused = label

    def tell_args(n, bad=None):
        sol, obj, meas = np.full((n, D), 0.25), np.full(n, -0.25), np.full((n, 2), 0.25)
        info = {"status": np.ones(n, dtype=np.int32), "value": np.full(n, 0.5)}
        if bad == "len":
            obj = np.full(n + 1, -0.25)
        elif bad == "nan":
            obj[rr.randrange(n)] = np.nan
        elif bad == "dim":
            sol = np.full((n, D + 1), 0.25)
        return sol, obj, meas, info

    def jac_args(n, bad):
        jac = np.full((n, 3, D), 0.5)
        if bad == "nan":
            jac[rr.randrange(n), rr.randrange(3), rr.randrange(D)] = rr.choice([np.nan, np.inf])
        elif bad == "shape":
            jac = np.full((n, 3, D + 1), 0.5)
        elif bad == "rows":
            jac = np.full((n, 2, D), 0.5)
        return jac

    calls = []
    # ---- out of protocol order: the scheduler
    n_all = 3
    if pos == "pre":
        calls.append(("scheduler.tell() without ask()", lambda: sched.tell(np.zeros(n_all), np.zeros((n_all, 2)))))
        if dqd:
            calls.append(("scheduler.tell_dqd() without ask_dqd()",
                          lambda: sched.tell_dqd(np.zeros(n_all), np.zeros((n_all, 2)), np.zeros((n_all, 3, D)))))
    else:
        calls.append(("scheduler.ask() straight after ask()", sched.ask))
        if dqd:
            calls.append(("scheduler.ask_dqd() straight after ask()", sched.ask_dqd))
            calls.append(("scheduler.tell_dqd() after ask()",
                          lambda: sched.tell_dqd(np.zeros(n_all), np.zeros((n_all, 2)), np.zeros((n_all, 3, D)))))
    # ---- malformed arguments: the archive
    calls.append(("archive.add(solutions of the wrong dimension)",
                  lambda: archive.add(np.zeros((2, D + 1)), np.zeros(2), np.zeros((2, 2)))))
    calls.append(("archive.add(NaN objective)",
                  lambda: archive.add(np.zeros((2, D)), np.array([0.0, np.nan]), np.zeros((2, 2)))))
    calls.append(("archive.add(objective of another length)",
                  lambda: archive.add(np.zeros((2, D)), np.zeros(3), np.zeros((2, 2)))))
    # a CQD score that must be refused (penalties of the wrong rank) while it is asked to DRAW its target points from
    # the archive's own generator: the refusal must not have consumed that stream (sample_elites uses it later)
    calls.append(("archive.cqd_score(drawn target points, penalties of rank 2)",
                  lambda: archive.cqd_score(2, 3, np.zeros((2, 2)), 0.0, 1.0, dist_max=1.0)))
    calls.append(("archive.cqd_score(target points of the wrong shape)",
                  lambda: archive.cqd_score(2, np.zeros((3, 2)), 3, 0.0, 1.0, dist_max=1.0)))
    # ---- the emitters, called directly
    early = []
    for k, (em, spec) in enumerate(zip(ems, case["emitters"])):
        cls = ribs_class(em)
        kind = spec["kind"]
        n = int(getattr(em, "batch_size", 3) or 3)
        if kind in ("es", "ga"):
            for bad in ("len", "nan", "dim"):
                calls.append((f"emitter {k} ({kind}).tell(malformed: {bad})",
                              lambda cls=cls, em=em, n=n, bad=bad: cls.tell(em, *tell_args(n, bad))))
        if kind in ("ga", "gop"):
            nd = 1 if kind == "ga" else n
            for bad in ("nan", "nan", "shape", "rows"):
                def f(cls=cls, em=em, nd=nd, bad=bad):
                    sol, obj, meas, info = tell_args(nd)
                    cls.tell_dqd(em, sol, obj, meas, jac_args(nd, bad), info)
                calls.append((f"emitter {k} ({kind}).tell_dqd(malformed Jacobian: {bad})", f))
        if kind == "ga" and it == 0 and pos == "pre":
            # before any gradients were supplied: ask() and tell() are out of order
            early.append((f"emitter {k} (ga).ask() before tell_dqd()", lambda cls=cls, em=em: cls.ask(em)))
            early.append((f"emitter {k} (ga).tell() before tell_dqd()",
                          lambda cls=cls, em=em, n=n: cls.tell(em, *tell_args(n))))
    for label, fn in early:
        attempt(label, fn)
    if rr.random() < 0.6:
        for label, fn in rr.sample(calls, min(len(calls), rr.randint(1, 3))):
            attempt(label, fn)


def run_pipeline(case, variant, stop_at=None, cfg=None):
    """Runs the pipeline of `case` once.

    variant: 'a' | 'b' (global state + foreign draws of that name), 'p' (as 'a', pickled at case['ckpt']),
    's' (as 'a', one seed changed), 'x' (as 'a', stop before iteration case['ckpt'] and return the pickle),
    'd' (as 'a', but every emitter gets its own es_kwargs dict even when the case shares one object),
    'r' (as 'a', with calls the pipeline must refuse interleaved -- see refused_calls).
    """
    from ribs.schedulers import BanditScheduler, Scheduler
    _init_spies()
    obs = Obs()
    which = "b" if variant == "b" else "a"
    g = case["glob"][1 if which == "b" else 0]
    np.random.seed(g[0])
    random.seed(g[1])
    aseed = case["archive"]["seed"]
    eseeds = [e["seed"] for e in case["emitters"]]
    sib = -1  # component (0 = archive, k + 1 = emitter k) that gets the sibling child seed in run (iii)
    if variant == "s":
        ch = case.get("change", 0) % (len(eseeds) + 1)
        spec = case["archive"] if ch == 0 else case["emitters"][ch - 1]
        if spec.get("child"):
            sib = ch  # same root, same path, only the last child index differs
        elif ch == 0:
            aseed += 7919
        else:
            eseeds[ch - 1] += 7919
    try:
        with warnings.catch_warnings():
            warnings.simplefilter("ignore")
            if cfg is None:
                cfg = build_config(case, eseeds, sib, separate=variant == "d")
            owned = cfg["owned"]
            try:
                with obs.guard("archive constructor"):
                    archive = make_archive(case["archive"], aseed, sibling=sib == 0, kmkw=cfg["kmkw"])
            finally:
                obs.check_owned(owned, "constructing the archive")
            if hasattr(archive, "centroids"):
                obs.put("centroids", archive.centroids)
            if case["archive"].get("prefill"):
                # a few evaluated solutions before the emitters exist (the random-direction rankers read the
                # archive's bounds when they are constructed; a ProximityArchive has none while it is empty)
                init = np.random.default_rng(5).uniform(-1, 1, (int(case["archive"]["prefill"]), D))
                with obs.guard("archive.add (prefill)"):
                    archive.add(init, *evaluate(init, case.get("eval")))
            result = None
            if case.get("result_archive"):
                with obs.guard("result archive constructor"):
                    result = make_archive({"kind": "grid"}, aseed + 1)
            foreign(case["ops"][0][which][:3] if case["ops"] else (0, 0, None))
            ems = []
            for k, es in enumerate(case["emitters"]):
                try:
                    with obs.guard(f"emitter {k} constructor"):
                        ems.append(make_emitter(es, archive, eseeds[k], k, sibling=sib == k + 1,
                                                es_kwargs=cfg["es"][k], op_kwargs=cfg["op"][k],
                                                bounds=cfg["bounds"][k]))
                finally:
                    obs.check_owned(owned, f"constructing emitter {k}")
            with obs.guard("scheduler constructor"):
                if case["sched"] == "bandit":
                    sched = BanditScheduler(archive, ems, case.get("num_active", 1), result_archive=result,
                                            add_mode=case.get("add_mode", "batch"))
                else:
                    sched = Scheduler(archive, ems, result_archive=result, add_mode=case.get("add_mode", "batch"))
            dqd = any(e["kind"] in ("ga", "gop") for e in case["emitters"])
            blob = None
            ck = case.get("ckpt", 0) % max(len(case["ops"]), 1)
            mid = variant == "p" and case.get("ckpt_phase", 0) == 1  # checkpoint between ask() and tell()
            for it, op in enumerate(case["ops"]):
                f = op[which]
                if variant in ("p", "x") and it == ck and not mid:
                    with obs.guard("pickle.dumps"):
                        blob = pickle.dumps(sched)
                    if variant == "x":
                        return obs, blob, it
                    with obs.guard("pickle.loads"):
                        sched = pickle.loads(blob)
                    archive = ems = result = None
                foreign(f[:3])
                if variant == "b":
                    look_around(sched)
                if variant == "r":
                    refused_calls(obs, sched, case, it, "pre")
                if dqd:
                    with obs.guard(f"ask_dqd[{it}]"):
                        sols = sched.ask_dqd()
                    obs.put(f"ask_dqd[{it}]", sols)
                    obj, meas = evaluate(sols, case.get("eval"))
                    jac = jacobian(sols, case.get("eval"))
                    foreign((f[3], f[4], None))
                    with obs.guard(f"tell_dqd[{it}]"):
                        sched.tell_dqd(obj, meas, jac)
                with obs.guard(f"ask[{it}]"):
                    sols = sched.ask()
                obs.put(f"ask[{it}]", sols)
                obj, meas = evaluate(sols, case.get("eval"))
                if variant == "b" and it % 2 == 1:
                    look_around(sched)
                if variant == "r":
                    refused_calls(obs, sched, case, it, "mid")
                if mid and it == ck:
                    with obs.guard("pickle.dumps"):
                        blob = pickle.dumps(sched)
                    with obs.guard("pickle.loads"):
                        sched = pickle.loads(blob)
                    archive = ems = result = None
                foreign((f[3], f[4], None))
                with obs.guard(f"tell[{it}]"):
                    sched.tell(obj, meas)
            finish(obs, sched)
            obs.check_owned(owned, "running the pipeline")
    except Exception as e:  # pylint: disable=broad-except
        obs.error = f"{type(e).__name__}: {str(e)[:160]}"
        obs.items.append(("exception", ("exc", (), type(e).__name__), obs.error))
    return obs, None, None


def finish(obs, sched):
    for k, em in enumerate(emitters_of(sched)):
        log = em.__dict__.get("_c09_log", [])
        rows = 0
        for j, info in enumerate(log):
            for name, arr in info.items():
                obs.put(f"feedback[emitter {k}][tell {j}].{name}", arr)
            rows += max([len(arr) for arr in info.values()], default=0)
        obs.active[k] = rows
        first = next((b for how, b in em.__dict__.get("_c09_sols", []) if how == "ask" and len(b)), None)
        if first is not None:
            obs.first_batch[k] = digest(first)
    with obs.guard("archive.data / stats / sample_elites"):
        observe_archive(obs, "archive", sched.archive)
        if sched.result_archive is not sched.archive:
            observe_archive(obs, "result_archive", sched.result_archive, draw=False)


def resume_pipeline(case, blob, start):
    """Continuation of a pickled scheduler (same code path as the tail of run_pipeline, variant 'a')."""
    obs = Obs()
    try:
        with warnings.catch_warnings():
            warnings.simplefilter("ignore")
            with obs.guard("pickle.loads"):
                sched = pickle.loads(blob)
            dqd = any(e["kind"] in ("ga", "gop") for e in case["emitters"])
            for it, op in enumerate(case["ops"]):
                if it < start:
                    continue
                f = op["a"]
                foreign(f[:3])
                if dqd:
                    with obs.guard(f"ask_dqd[{it}]"):
                        sols = sched.ask_dqd()
                    obs.put(f"ask_dqd[{it}]", sols)
                    obj, meas = evaluate(sols, case.get("eval"))
                    foreign((f[3], f[4], None))
                    with obs.guard(f"tell_dqd[{it}]"):
                        sched.tell_dqd(obj, meas, jacobian(sols, case.get("eval")))
                with obs.guard(f"ask[{it}]"):
                    sols = sched.ask()
                obs.put(f"ask[{it}]", sols)
                obj, meas = evaluate(sols, case.get("eval"))
                foreign((f[3], f[4], None))
                with obs.guard(f"tell[{it}]"):
                    sched.tell(obj, meas)
            finish(obs, sched)
    except Exception as e:  # pylint: disable=broad-except
        obs.error = f"{type(e).__name__}: {str(e)[:160]}"
        obs.items.append(("exception", ("exc", (), type(e).__name__), obs.error))
    return obs


def _resume_main(path):
    """Entry point of the fresh-process resumption: reads {case, blob(hex), start}, prints the observation."""
    _init_spies()
    body = json.load(open(path))
    np.random.seed(987654)
    random.seed(13579)
    obs = resume_pipeline(body["case"], bytes.fromhex(body["blob"]), body["start"])
    print("C09RESUME " + json.dumps({"items": [[l, list(map(str, d)), e] for l, d, e in obs.items],
                                     "disturbed": obs.disturbed, "error": obs.error}))


class Diff(str):
    """Stable description of a difference (goes into Failure.what); run-dependent values go into .values."""

    def __new__(cls, text, values=None):
        o = super().__new__(cls, text)
        o.values = values
        return o


def first_diff(o1, o2, only_prefix=None):
    """First label on which two observation logs differ, or None."""
    i1 = [x for x in o1.items if only_prefix is None or x[0].startswith(only_prefix)]
    i2 = [x for x in o2.items if only_prefix is None or x[0].startswith(only_prefix)]
    for a, b in zip(i1, i2):
        if a[0] != b[0]:
            return Diff(f"observation sequence diverges: {a[0]} vs {b[0]}")
        if a[1] != b[1]:
            return Diff(f"first differing observable: {a[0]}", f"{a[2]} vs {b[2]}")
    if len(i1) != len(i2):
        longer = i1 if len(i1) > len(i2) else i2
        return Diff(f"one run made {abs(len(i1)-len(i2))} more observations "
                    f"(first extra: {longer[min(len(i1), len(i2))][0]})")
    return None


# --------------------------------------------------------------------------
# the case runner (oracle = the property read on the implementation's observable behaviour)


def describe(case):
    a = case["archive"]
    def sk(spec):
        k = seed_kind(spec)
        if k == "child":
            return "/child" + "".join(f"[{i}of{n}]" for n, i in spec["child"])
        return "/" + k

    ar = a["kind"] + (f"/{a['method']}" if a["kind"] == "cvt" else "") + sk(a) + \
        (f"/{a['samples']} samples" if a.get("samples", 160) != 160 else "")
    ems = ",".join(e["kind"] + (f"[{e['es']},{e['ranker']}{':' + e['rform'] if e.get('rform', 'abbr') != 'abbr' else ''}]" if e["kind"] in ("es", "ga") else "")
                   + (f"[{e.get('op')},mg={int(bool(e.get('mg')))},{e.get('start', '')}]" if e["kind"] == "gop" else "")
                   + (f"[{e.get('op')}]" if e["kind"] == "gen" else "")
                   + (sk(e) if seed_kind(e) != "int" else "") + ("/tight-bounds" if e.get("bounds") == "tight" else "")
                   for e in case["emitters"])
    kw = ""
    if any(e.get("eskw") is not None for e in case["emitters"]):
        kw = " | es_kwargs=" + ";".join(json.dumps(e["eskw"]) if e.get("eskw") is not None else "-"
                                        for e in case["emitters"]) + \
            (" (ONE shared dict object)" if shares_es_kwargs(case) else " (one dict per emitter)")
    return f"{ar} seed={a['seed']} | {ems} | {case['sched']} | {len(case['ops'])} it{kw}"


def has_pycma(case):
    return any(e.get("es") == "pycma_es" for e in case["emitters"])


def run_case(case, ctx=None):
    fresh_process = bool(case.get("fresh"))
    cnt = (lambda k: ctx.count(k)) if ctx is not None else (lambda k: None)
    what = describe(case)
    # (i) same seeds, different global states and foreign interleavings
    # the caller's configuration objects are written down ONCE per case: both runs of the same-seed comparison,
    # the pickled run and the fresh-process run are built from these same objects
    cfg = build_config(case, [e["seed"] for e in case["emitters"]])
    oa, _, _ = run_pipeline(case, "a", cfg=cfg)
    if oa.disturbed is not None:
        return Failure("oracle", f"global random state disturbed by {oa.disturbed} (first run) :: {what}")
    if oa.kw_modified is not None:
        when, changes, label = oa.kw_modified
        cnt("config-object-modified")
        if any(rnd for _, rnd in changes):
            # the caller's object gained / lost a seed or generator: every later component or pipeline built from
            # the same object is seeded differently (what it draws depends on what was built before it)
            return Failure("oracle", f"the caller's {label} was modified by {when}: "
                                     f"{', '.join(c for c, _ in changes[:8])} -- random material (seed / generator) "
                                     f"was written into or taken out of the caller's object :: {what}")
    ob, _, _ = run_pipeline(case, "b", cfg=cfg)
    if ob.disturbed is not None:
        return Failure("oracle", f"global random state disturbed by {ob.disturbed} (second run) :: {what}")
    d = first_diff(oa, ob)
    if d is not None:
        return Failure("oracle", f"same seeds, different global random state -> different results: {d} :: {what}",
                       detail=d.values)
    if oa.error is not None:
        # the generators only build valid configurations (seeds of every kind numpy accepts included): a component
        # that refuses one does not honour its seed
        cnt("raised:" + oa.error.split(":")[0])
        last = oa.items[-2][0] if len(oa.items) > 1 else "the archive constructor"
        return Failure("oracle", f"a valid seeded pipeline was refused with {oa.error.split(':')[0]} (after "
                                 f"{last}) :: {what}", detail=oa.error)
    cnt("i:double-run-identical")
    # (v) k-means centroids: the same archive built again and again in this process, bitwise
    a = case["archive"]
    if a["kind"] == "cvt" and a["method"] == "kmeans":
        ref = next((x for x in oa.items if x[0] == "centroids"), None)
        with warnings.catch_warnings():
            warnings.simplefilter("ignore")
            for rep in range(KMEANS_REBUILDS):
                arch = make_archive(a, a["seed"])
                if ref is not None and digest(arch.centroids) != ref[1]:
                    return Failure("oracle", f"CVTArchive k-means centroids differ between two constructions with the "
                                             f"same seed in one process (construction {rep + 3} of "
                                             f"{KMEANS_REBUILDS + 2}, {a.get('samples', 160)} samples, 8 OpenMP threads "
                                             f"allowed) :: {what}", detail=f"{ref[2]} vs {excerpt(arch.centroids)}")
        cnt("v:kmeans-rebuilt-identical" + ("(>=1000 samples)" if a.get("samples", 160) >= 1000 else ""))
    # (iv) one es_kwargs dict object shared by several emitters == separate equal dicts
    if shares_es_kwargs(case):
        od, _, _ = run_pipeline(case, "d")
        if od.disturbed is not None:
            return Failure("oracle", f"global random state disturbed by {od.disturbed} (separate-dicts run) :: {what}")
        d = first_diff(oa, od)
        if d is not None:
            return Failure("oracle", "a pipeline whose emitters were given ONE shared es_kwargs dict behaves differently "
                                     f"from the same pipeline built with separate equal dicts: {d} :: {what}",
                           detail=d.values)
        cnt("iv:shared-es_kwargs-identical")
    # (vii) the same run with refused calls interleaved
    orj, _, _ = run_pipeline(case, "r", cfg=cfg)
    if orj.disturbed is not None:
        return Failure("oracle", f"global random state disturbed by {orj.disturbed} :: {what}")
    if orj.unrefused is not None:
        cnt("vii:skipped(a malformed or out-of-order call was accepted)")  # C11's / C19's business, not read here
    else:
        d = first_diff(oa, orj)
        if d is not None:
            return Failure("oracle", f"same seeds, same evaluations, but {orj.refused} calls that were REFUSED (out of "
                                     f"protocol order / malformed arguments; each raised and the caller carried on) "
                                     f"interleaved -> different results than the run without them: {d} :: {what}",
                           detail=d.values)
        cnt("vii:refused-calls-leave-run-identical")
        if ctx is not None:
            ctx.count("vii:refused-calls", orj.refused)
    # (ii) pickle continuation
    if not has_pycma(case):
        op, _, _ = run_pipeline(case, "p", cfg=cfg)
        if op.disturbed is not None:
            return Failure("oracle", f"global random state disturbed by {op.disturbed} (pickled run) :: {what}")
        d = first_diff(oa, op)
        if d is not None:
            where = ("between ask and tell of" if case.get("ckpt_phase", 0) == 1 else "before") + \
                f" iteration {case.get('ckpt', 0) % len(case['ops'])}"
            return Failure("oracle", f"run pickled {where} does not continue like the uninterrupted run: {d} "
                                     f":: {what}", detail=d.values)
        cnt("ii:pickle-continuation-identical")
        if fresh_process:
            f = fresh_process_resume(case, oa)
            if f is not None:
                return Failure("oracle", f + " :: " + what)
            cnt("ii:fresh-process-continuation-identical")
    else:
        cnt("ii:skipped-pycma")
    # (iii) one seed changed
    os_, _, _ = run_pipeline(case, "s")
    if os_.disturbed is not None:
        return Failure("oracle", f"global random state disturbed by {os_.disturbed} (changed-seed run) :: {what}")
    ch = case.get("change", 0) % (len(case["emitters"]) + 1)
    verdict = seed_change_verdict(case, ch, oa, os_)
    spec = case["archive"] if ch == 0 else case["emitters"][ch - 1]
    cnt("iii:" + verdict + ("(sibling child seed)" if spec.get("child") else ""))
    if verdict == "same":
        who = "the archive" if ch == 0 else f"emitter {ch-1}"
        if spec.get("child"):
            n, i = spec["child"][-1]
            return Failure("oracle", f"giving {who} the sibling seed (child {(i + 1) % n} instead of child {i} of the "
                                     f"same spawn({n})) changed nothing it draws: different seeds, same stream "
                                     f":: {what}")
        return Failure("oracle", f"changing the seed of {who} changed nothing it draws :: {what}")
    return None


def shares_es_kwargs(case):
    if not case.get("eskw_shared"):
        return False
    return any(len(users) > 1 for _, _, users in build_es_kwargs(case)[1])


def seed_change_verdict(case, ch, oa, os_):
    if os_.error is not None:
        return "inconclusive"
    if ch == 0:
        a = case["archive"]
        if a["kind"] == "cvt" and a["method"] in ("kmeans", "random", "scrambled_sobol", "halton"):
            return "differs" if first_diff(oa, os_, "centroids") is not None else "same"
        n = next((x for x in oa.items if x[0] == "archive.sample_elites.index"), None)
        ne = next((x for x in oa.items if x[0] == "archive.stats"), None)
        if n is None or ne is None:
            return "inconclusive"
        if first_diff(oa, os_) is not None:
            return "differs"
        # nothing differs: conclusive only when the final sample_elites draw had >= 4 elites to choose from
        data_index = next((x for x in oa.items if x[0] == "archive.data.index"), None)
        return "same" if data_index is not None and data_index[1][1][0] >= 4 else "inconclusive"
    if oa.active.get(ch - 1, 0) == 0:
        return "inconclusive"  # the emitter was never asked (inactive in the bandit pool)
    e = case["emitters"][ch - 1]
    if e["kind"] == "gop" and e.get("start", "init" if e.get("op") == "iso_line_dd" else "x0") == "init":
        # built with initial_solutions: its first batch is those solutions whatever the seed
        return "differs" if first_diff(oa, os_, "ask") is not None else "same"
    # the first batch an emitter emits is drawn from its own stream alone, so it must change with its seed
    # (comparing whole runs would let a seed that only reaches, say, the ranker pass for the optimizer's)
    fa, fs = oa.first_batch.get(ch - 1), os_.first_batch.get(ch - 1)
    if fa is None or fs is None:
        return "inconclusive"
    return "differs" if fa != fs else "same"


def fresh_process_resume(case, oa):
    """Pickle in this process, resume in a fresh interpreter, compare with the uninterrupted run."""
    ox, blob, start = run_pipeline(case, "x")
    if blob is None:
        return None
    d = os.path.join(core.VERIF, "replays", ID)
    os.makedirs(d, exist_ok=True)
    path = os.path.join(d, f".resume_{os.getpid()}.json")
    with open(path, "w") as f:
        json.dump({"case": {k: v for k, v in case.items() if not k.startswith("_")}, "blob": blob.hex(),
                   "start": start}, f)
    try:
        code = ("import sys; sys.path.insert(0, %r); import props.c09 as m; m._resume_main(%r)" %
                (os.path.join(core.VERIF, "harness"), path))
        r = subprocess.run([sys.executable, "-c", code], stdout=subprocess.PIPE, stderr=subprocess.PIPE, text=True,
                           timeout=300, check=False)
    finally:
        try:
            os.remove(path)
        except OSError:
            pass
    line = next((ln for ln in r.stdout.splitlines() if ln.startswith("C09RESUME ")), None)
    if line is None:
        return f"fresh-process resumption crashed: {r.stderr[-300:]}"
    res = json.loads(line[len("C09RESUME "):])
    if res["disturbed"]:
        return f"global random state disturbed by {res['disturbed']} (fresh-process resumption)"
    if res["error"]:
        return (f"pipeline pickled before iteration {start} cannot be resumed in a fresh process: "
                f"{res['error'].split(':')[0]}")
    want = {x[0]: (list(map(str, x[1])), x[2]) for x in oa.items}
    for label, dg, ex in res["items"]:
        if label not in want:
            return f"fresh-process resumption made an observation the uninterrupted run did not: {label}"
        if want[label][0] != dg:
            return (f"pipeline pickled before iteration {start} and resumed in a fresh process does not continue "
                    f"like the uninterrupted run: {label}: {want[label][1]} vs {ex}")
    if res["error"]:
        return f"fresh-process resumption raised {res['error']}"
    if not any(l.startswith("archive.data") for l, _, _ in res["items"]):
        return "fresh-process resumption did not reach the end of the run"
    return None


# --------------------------------------------------------------------------
# generators: strata derived from the property's quantifier


def gen_foreign(rng, n_iter):
    ops = []
    for _ in range(n_iter):
        op = {}
        for w in ("a", "b"):
            op[w] = [rng.choice([0, 0, 1, 3, 17]), rng.choice([0, 0, 1, 5]),
                     rng.choice([None, None, None, rng.randrange(1000)]),
                     rng.choice([0, 0, 2]), rng.choice([0, 1])]
        if op["a"] == op["b"]:
            op["b"][0] += 1
        ops.append(op)
    return ops


def base_case(rng, n_iter):
    return {
        "glob": [[rng.randrange(2**31), rng.randrange(2**31)], [rng.randrange(2**31), rng.randrange(2**31)]],
        "ckpt": rng.randrange(n_iter),
        "ckpt_phase": rng.choice([0, 0, 1]),
        "change": rng.randrange(4),
        "rej": rng.randrange(1 << 20),
        "ops": gen_foreign(rng, n_iter),
        "result_archive": False,
        "sched": "plain",
        "add_mode": "batch",
    }


SEED_KINDS = ["child", "int", "SeedSequence"]
# the seed kind of a stratum's main component by position in the stratum (cyclic).  Seed 0 -- as int and as
# np.int64 -- reaches every seeded component in every run: the archives (k-means first), every simple emitter and
# gradient-operator configuration, GA emitters, and through the eskw stratum every evolution strategy
ES_KIND_SEQ = ["child", "zero", "int", "SeedSequence", "npzero", "child", "int", "zero", "SeedSequence", "child",
               "npzero", "int"]
DQD_KIND_SEQ = ["zero", "child", "int", "npzero", "child", "zero", "SeedSequence", "int", "npzero", "child"]


def seed_fields(rng, sk=None):
    """seed / ss / child entries of a component spec; sk forces the seed kind."""
    sk = sk or rng.choice(["int", "int", "SeedSequence", "child", "child", "bigint", "zero", "npzero"])
    out = {"seed": rng.randrange(1, 10**6), "ss": sk in ("SeedSequence", "child")}
    if sk == "bigint":  # numpy takes any non-negative int; libraries underneath may only take 32 bits
        out["seed"] += rng.choice([2**32 - 10**6, 2**32, 2**63, 2**64, 2**100])
    if sk in ("zero", "npzero"):  # seed 0 is a seed like any other, but falsy
        out["seed"] = 0
        out["np"] = sk == "npzero"
    if sk == "child":
        path = []
        for _ in range(rng.choice([1, 1, 1, 2])):  # children and grandchildren
            n = rng.choice([2, 3, 5])
            path.append([n, rng.randrange(n)])
        out["child"] = path
    return out


def archive_spec(rng, kind=None, method=None, sk=None, big=None):
    kind = kind or rng.choice(["grid", "cvt", "sliding", "proximity"])
    if kind == "cvt":
        method = method or rng.choice(CVT_METHODS)
    spec = {"kind": kind, **seed_fields(rng, sk)}
    if kind == "cvt":
        spec["method"] = method
        spec["kd"] = rng.random() < 0.7
        if method == "kmeans":
            spec["kmkw"] = rng.choice([None, {"max_iter": 20, "tol": 1e-5}, {"n_init": 2}])
            spec["samples"] = (rng.choice([1000, 2500, 6000]) if big or (big is None and rng.random() < 0.5)
                               else 160)
    elif kind == "grid":
        spec["lr"] = rng.choice([None, None, 0.5])
    elif kind == "proximity":
        spec["lc"] = rng.random() < 0.5
    return spec


# The coverage lattice: every emitter kind x every constructor option that changes WHICH random numbers are drawn
# (operator, operator_type, measure_gradients, start from x0 / initial_solutions, bounds, evolution strategy).  The
# strata walk through it in a fixed order, so that every configuration occurs in every run -- also in the quick
# tier -- instead of by chance; the other fields of a case stay random.
SIMPLE_LATTICE = [("gauss", {"bounds": False}), ("gen", {"op": "isoline"}), ("iso", {}), ("gen", {"op": "gaussian"}),
                  ("gauss", {"bounds": True})]
GOP_LATTICE = [
    {"op": "iso_line_dd", "mg": False, "line": 0.2, "start": "x0"},
    {"op": "iso_line_dd", "mg": True, "line": 0.2, "start": "init"},
    {"op": "isotropic", "mg": True, "line": 0.0, "start": "x0"},
    {"op": "isotropic", "mg": False, "line": 0.0, "start": "x0"},
    {"op": "iso_line_dd", "mg": False, "line": 0.0, "start": "init"},
]


def simple_emitter(rng, kind=None, sk=None, opts=None):
    kind = kind or rng.choice(["gauss", "iso", "gen"])
    e = {"kind": kind, **seed_fields(rng, sk), "batch": rng.choice([2, 3, 5])}
    if kind == "gen":
        e["op"] = rng.choice(["gaussian", "isoline"])
    if kind == "gauss":
        e["bounds"] = rng.random() < 0.3
    e.update(opts or {})
    return e


def es_emitter(rng, archive_kind, es=None, ranker=None, kind="es", sk=None, tight=None):
    e = {"kind": kind, **seed_fields(rng, sk),
         "es": es or rng.choice(ES_NAMES), "batch": rng.choice([4, 6]),
         "sel": rng.choice(["filter", "mu"]), "restart": rng.choice(["no_improvement", "basic", 2])}
    e["ranker"] = "nov" if archive_kind == "proximity" else (ranker or rng.choice(RANKERS))
    e["rform"] = rng.choice(["abbr", "abbr", "full", "class", "class"])
    if e["es"] == "lm_ma_es":
        # LM-MA-ES rejects batch_size > dimension of its search space (D, or measure_dim + 1 inside a GA emitter)
        e["batch"] = 4 if kind == "es" else rng.choice([2, 3])
    if kind == "ga":
        e["grad_opt"] = rng.choice(["adam", "gradient_ascent"])
        e["norm"] = rng.random() < 0.7
    if rng.random() < 0.3:  # documented evolution-strategy options through es_kwargs (a dict of its own)
        e["eskw"] = rng.choice(ES_KWARGS[e["es"]])
    # (not pycma_es: when a bounded pycma emitter restarts from an archive elite that another emitter put outside
    # its bounds, pycma's BoundTransform raises ValueError -- reported, outside this property)
    if kind == "es" and e["es"] != "pycma_es" and (tight or (tight is None and rng.random() < 0.3)):
        e["bounds"] = "tight"
        if e["es"] == "openai_es":
            e["eskw"] = {"mirror_sampling": False}  # documented: bounds need mirror_sampling=False in OpenAI-ES
    return e


ES_KWARGS = {  # valid es_kwargs per evolution strategy
    "cma_es": [{}],
    "sep_cma_es": [{}],
    "lm_ma_es": [{"n_vectors": 3}, {}],
    "openai_es": [{"mirror_sampling": False}, {"mirror_sampling": True}],
    "pycma_es": [{"opts": {"tolfun": 1e-11}}, {"opts": {"tolfun": 1e-11, "verbose": -9}}, {}],
}


def gop_emitter(rng, sk=None, opts=None):
    e = {"kind": "gop", **seed_fields(rng, sk), "batch": rng.choice([2, 3]),
         "mg": rng.random() < 0.5, "norm": rng.random() < 0.5, "line": rng.choice([0.0, 0.2]),
         "op": rng.choice(["isotropic", "iso_line_dd"])}
    e["start"] = rng.choice(["x0", "init"]) if e["op"] == "iso_line_dd" else "x0"
    e.update(opts or {})
    return e


def harmonise_bounds(case):
    """A bounded evolution strategy that restarts from an archive elite outside its bounds never gets a sample
    accepted again (its resampling loop does not end; pycma raises instead) -- outside this property, reported.
    So when one emitter of a pipeline has the tight bounds, every emitter gets them (all elites then lie inside);
    if some emitter of the pipeline cannot take them (pycma_es, the DQD emitters), nobody does."""
    ems = case["emitters"]
    if not any(e.get("bounds") == "tight" for e in ems):
        return case
    if any(e["kind"] in ("ga", "gop") or e.get("es") == "pycma_es" for e in ems):
        for e in ems:
            if e.get("bounds") == "tight":
                e["bounds"] = False if e["kind"] == "gauss" else None
        return case
    for e in ems:
        e["bounds"] = "tight"
        if e.get("es") == "openai_es" and (e.get("eskw") or {}).get("mirror_sampling", True):
            e["eskw"] = {"mirror_sampling": False}
    return case


class Cycle:
    """Systematic enumeration of a list of combinations (`first` ones first, the others shuffled by the run's
    seed), then random."""

    def __init__(self, ctx, name, combos, first=()):
        rest = [c for c in combos if c not in first]
        ctx.rng("cycle", name).shuffle(rest)
        self.combos = list(first) + rest
        self.i = 0

    def next(self, rng):
        if self.i < len(self.combos):
            c = self.combos[self.i]
        else:
            c = rng.choice(self.combos)
        self.i += 1
        return c


def strata(ctx):
    """name -> generator; every generator enumerates its axis of the quantifier systematically first."""
    arch_combos = [("grid", None), ("sliding", None), ("proximity", None)] + [("cvt", m) for m in CVT_METHODS]
    # k-means (the default method) hands its seed to scikit-learn, which takes less than numpy does: those
    # combinations come first in every run, the rest of the cross product follows in shuffled order
    cyc_arch = Cycle(ctx, "arch", [(k, m, sk) for (k, m) in arch_combos
                                   for sk in SEED_KINDS + ["bigint", "zero", "npzero"]],
                     first=[("cvt", "kmeans", sk) for sk in ("zero", "SeedSequence", "npzero", "bigint", "child")] +
                     [("grid", None, "zero"), ("sliding", None, "npzero"), ("proximity", None, "zero"),
                      ("cvt", "random", "npzero"), ("cvt", "scrambled_sobol", "zero"), ("cvt", "halton", "npzero")])
    rot = {"es": 0, "dqd": 0}  # the seed kind of the stratum's main emitter rotates: child, int, SeedSequence, ...
    # the rankers that draw (random directions) come first in every run, given as the class itself first
    r0 = ctx.rng("es-first")
    es_first = [(r0.choice(ES_NAMES), "rd"), (r0.choice(ES_NAMES), "2rd")]
    # ... then the evolution strategies take turns (all five within any five consecutive cases)
    per_es = {es: [r for r in RANKERS if (es, r) not in es_first] for es in ES_NAMES}
    for es in ES_NAMES:
        r0.shuffle(per_es[es])
    es_order = [es for es in ES_NAMES if es not in (es_first[0][0], es_first[1][0])] + \
        [es for es in ES_NAMES if es in (es_first[0][0], es_first[1][0])]
    rr = [(es, per_es[es][j]) for j in range(len(RANKERS)) for es in es_order if j < len(per_es[es])]
    cyc_es = Cycle(ctx, "es", [(es, r) for es in ES_NAMES for r in RANKERS], first=es_first + rr)
    rd_forms = [0]
    owed = [0]
    ga_es = list(ES_NAMES)
    r0.shuffle(ga_es)
    dqd_first = []
    for j in range(max(len(GOP_LATTICE), len(ga_es))):  # gop and ga configurations alternate, Iso+LineDD first
        if j < len(GOP_LATTICE):
            dqd_first.append(("gop", j, None))
        if j < len(ga_es):
            dqd_first.append(("ga", ga_es[j], r0.choice(["imp", "2imp", "rd", "obj"])))
    cyc_dqd = Cycle(ctx, "dqd", [("ga", es, r) for es in ES_NAMES for r in ("imp", "2imp", "rd", "obj")]
                    + [("gop", j, None) for j in range(len(GOP_LATTICE))], first=dqd_first)
    simple_i = [r0.randrange(len(SIMPLE_LATTICE))]
    simple_0 = simple_i[0] + 1
    cyc_mixed = Cycle(ctx, "mixed", [(s, am, ra) for s in ("plain", "bandit") for am in ("batch", "single")
                                     for ra in (False, True)])

    L = 1 if ctx.quick else 3  # thorough: histories up to three times as long (restarts, remaps, resizes)

    def g_archives(rng):
        kind, method, sk = cyc_arch.next(rng)
        n_iter = rng.randint(2, 4 * L)
        c = base_case(rng, n_iter)
        c["archive"] = archive_spec(rng, kind, method, sk, big=True)  # k-means: >= 1000 samples in this stratum
        kind1, opts1 = SIMPLE_LATTICE[simple_i[0] % len(SIMPLE_LATTICE)]  # the simple emitters take turns
        simple_i[0] += 1
        j = simple_i[0] - simple_0  # every third case the lattice emitter is seeded with 0 (int / np.int64 in turn)
        sk1 = ("zero" if (j // 3) % 2 == 0 else "npzero") if j % 3 == 1 else None
        c["emitters"] = [simple_emitter(rng, kind1, sk=sk1, opts=opts1)] + \
            [simple_emitter(rng) for _ in range(rng.randint(0, 1))]
        c["change"] = 0 if rng.random() < 0.6 else rng.randrange(4)
        c["sched"] = rng.choice(["plain", "plain", "bandit"])
        c["num_active"] = 1
        return c

    def g_es(rng):
        es, ranker = cyc_es.next(rng)
        n_iter = rng.randint(3, 6 * L)
        c = base_case(rng, n_iter)
        # (a ProximityArchive only works with the novelty ranker)
        c["archive"] = archive_spec(rng, rng.choice(["grid", "grid", "cvt", "sliding"] +
                                                    ([] if ranker in ("rd", "2rd") else ["proximity"])))
        sk = ES_KIND_SEQ[rot["es"] % len(ES_KIND_SEQ)]
        rot["es"] += 1
        i = rot["es"]
        c["emitters"] = [es_emitter(rng, c["archive"]["kind"], es, ranker, sk=sk, tight=True if i % 2 == 1 else None)]
        if ranker in ("rd", "2rd") and c["archive"]["kind"] != "proximity":
            c["emitters"][0]["rform"] = ["class", "full", "abbr"][rd_forms[0] % 3]
            rd_forms[0] += 1
        if i % 3 == 1:
            owed[0] += 1
        if owed[0] and es != "pycma_es":
            # every third case (the next one if that one is pycma, which takes no tight bounds): the native CMA-ES
            # (numba-compiled sampling helpers) under tight bounds
            owed[0] -= 1
            c["emitters"].append(es_emitter(rng, c["archive"]["kind"], "cma_es", tight=True))
        elif rng.random() < 0.5:
            c["emitters"].append(es_emitter(rng, c["archive"]["kind"]))
        # run (iii): with a child seed the main emitter gets its sibling; otherwise any component's seed changes
        c["change"] = 1 if sk == "child" else rng.randrange(1, 4)
        c["sched"] = rng.choice(["plain", "bandit"])
        c["num_active"] = 1
        return harmonise_bounds(c)

    def g_dqd(rng):
        kind, es, ranker = cyc_dqd.next(rng)
        n_iter = rng.randint(3, 5 * L)
        c = base_case(rng, n_iter)
        c["archive"] = archive_spec(rng, rng.choice(["grid", "grid", "cvt"]))
        sk = DQD_KIND_SEQ[rot["dqd"] % len(DQD_KIND_SEQ)]
        rot["dqd"] += 1
        if kind == "ga":
            c["emitters"] = [es_emitter(rng, c["archive"]["kind"], es, ranker, kind="ga", sk=sk)]
        else:
            c["emitters"] = [gop_emitter(rng, sk=sk, opts=GOP_LATTICE[es])]
        if rng.random() < 0.4:
            c["emitters"].append(simple_emitter(rng))
        # run (iii) mostly changes the seed of the stratum's main emitter
        c["change"] = 1 if sk == "child" or rng.random() < 0.6 else rng.randrange(1, 4)
        return c

    def g_mixed(rng):
        sched, add_mode, ra = cyc_mixed.next(rng)
        n_iter = rng.randint(4, 8 * L)
        c = base_case(rng, n_iter)
        c["archive"] = archive_spec(rng)
        k = c["archive"]["kind"]
        pool = []
        # a bandit pool is larger than what is active: at least num_active + 2 emitters, so that the scheduler
        # has to choose among several never-selected ones
        for _ in range(rng.randint(4, 5) if sched == "bandit" else rng.randint(2, 3)):
            pool.append(es_emitter(rng, k) if rng.random() < 0.4 else simple_emitter(rng))
        c["emitters"] = pool
        if k == "proximity":
            add_mode = "batch"  # ProximityArchive.add_single returns length-1 arrays: the scheduler rejects them
        c["sched"], c["add_mode"], c["result_archive"] = sched, add_mode, ra
        c["num_active"] = rng.randint(1, len(pool) - 2) if sched == "bandit" else len(pool)
        return harmonise_bounds(c)

    kw_es = ["pycma_es", "lm_ma_es", "openai_es", "cma_es", "sep_cma_es", "pycma_es", "openai_es"]
    kw_i = [ctx.rng("eskw-rotation").randrange(len(kw_es))]

    def g_eskw(rng):
        """Several emitters configured through es_kwargs: ONE dict object shared by all of them (what a caller
        who builds the dict once and a list of emitters from it does), or one equal dict each."""
        es = kw_es[kw_i[0] % len(kw_es)]
        kw_i[0] += 1
        kw = rng.choice([k for k in ES_KWARGS[es] if k or es != "pycma_es"])
        kind = rng.choice(["es", "es", "ga"])
        n_iter = rng.randint(3, 5 * L)
        c = base_case(rng, n_iter)
        c["archive"] = archive_spec(rng, rng.choice(["grid", "grid", "cvt"]))
        n = rng.randint(2, 3)
        ems = []
        for k_ in range(n):
            # the first emitter of each of these pipelines is seeded with 0: every evolution strategy gets it
            sk_ = (["zero", "npzero"][kw_i[0] % 2]) if k_ == 0 else None
            e = es_emitter(rng, c["archive"]["kind"], es, kind=kind, tight=False, sk=sk_)
            e["eskw"] = kw
            e["restart"] = rng.choice([1, 2, 2, "basic"])  # restarts rebuild the strategy from its stored options
            ems.append(e)
        c["emitters"] = ems
        c["eskw_shared"] = rng.random() < 0.8
        c["change"] = rng.randrange(2, n + 1)  # run (iii) changes the seed of a LATER emitter
        c["sched"] = "plain" if kind == "ga" else rng.choice(["plain", "plain", "bandit"])
        c["num_active"] = n
        return c

    obs_i = [r0.randrange(4)]

    def g_observer(rng):
        """Long runs on a coarse ProximityArchive with local competition (elites at the edge get replaced, so the
        archive's bounds move without the archive growing), random-direction rankers that re-read those bounds at
        every restart, restarts every 3-5 iterations: the setting in which WHEN somebody reads a cached read-only
        property can matter.  Run B reads them all the time (look_around), run A never."""
        j = obs_i[0]
        obs_i[0] += 1
        n_iter = rng.randint(70, 80)
        c = base_case(rng, n_iter)
        c["archive"] = {"kind": "proximity", **seed_fields(rng), "lc": True, "coarse": True, "prefill": 6}
        c["eval"] = "ridge" if j % 2 == 0 else None
        ems = []
        for k_ in range(3):
            e = es_emitter(rng, "grid", ["cma_es", "sep_cma_es", "cma_es", "lm_ma_es"][(j + k_) % 4],
                           "rd" if j % 2 == 0 else ["rd", "2rd", "rd"][k_], tight=False)
            if j % 2 == 0:
                e["sel"] = "filter"
            # every emitter restarts (= its ranker re-reads the bounds) only every 3rd-5th iteration: an emitter that
            # restarted after every iteration would read them as often as the observer does
            e["restart"] = [3, 4, 3, 5][j % 4]
            e["batch"] = 4 if e["es"] == "lm_ma_es" else 8
            e.pop("eskw", None)
            ems.append(e)
        c["emitters"] = ems
        c["change"] = rng.randrange(1, 4)
        return c

    return {"archives": g_archives, "es": g_es, "dqd": g_dqd, "mixed": g_mixed, "eskw": g_eskw,
            "observer": g_observer}


def minimise(case, fail):
    """Simplifies the pipeline of a failing case in place (the generic shrinker then shortens `ops`)."""
    case["_minimised"] = True

    def still(c):
        f = run_case({k: v for k, v in c.items() if not k.startswith("_")})
        return f is not None and f.kind == fail.kind

    tries = 0
    changed = True
    while changed and tries < 12:
        changed = False
        cands = []
        for i in range(len(case["emitters"])):
            if len(case["emitters"]) > 1:
                cands.append({"emitters": case["emitters"][:i] + case["emitters"][i + 1:]})
        if case.get("result_archive"):
            cands.append({"result_archive": False})
        if case.get("sched") != "plain":
            cands.append({"sched": "plain"})
        if case.get("add_mode") != "batch":
            cands.append({"add_mode": "batch"})
        if any(e["kind"] != "gauss" for e in case["emitters"]) and len(case["emitters"]) == 1:
            cands.append({"emitters": [{"kind": "gauss", "seed": 5, "ss": False, "batch": 2}]})
        if case["archive"].get("ss") or case["archive"].get("child"):
            cands.append({"archive": {k: v for k, v in dict(case["archive"], ss=False).items() if k != "child"}})
        for i, e in enumerate(case["emitters"]):
            if e.get("child") and len(e["child"]) > 1:  # a grandchild: try a plain child
                cands.append({"emitters": case["emitters"][:i] + [dict(e, child=e["child"][-1:])]
                              + case["emitters"][i + 1:]})
        for upd in cands:
            tries += 1
            c = dict(case)
            c.update(upd)
            if still(c):
                case.update(upd)
                changed = True
                break


def signature(case, fail):
    """Identity of a failure, for reporting each distinct symptom once: the archive matters only for
    construction-time symptoms, nothing but the call for a disturbed global state, the emitters otherwise."""
    label = fail.what.split(" :: ")[0]
    label = re.sub(r"\[[^\]]*\]|-?\d[\d.e+-]*", "#", label)[:120]
    label = re.sub(r" \((first|second|pickled|changed-seed) run\)", "", label)
    if "centroids" in label or "archive constructor" in label:
        return (label, case["archive"]["kind"], case["archive"].get("method"))
    if "global random state disturbed" in label:
        return (label,)
    if "the caller's" in label and "was modified by" in label:
        raw = fail.what.split(" :: ")[0]
        which = raw.split("the caller's ")[1].split(" dict")[0].split(" list")[0]
        return ("config modified", which, raw.split(": ", 1)[-1].split(" -- ")[0])  # the entries that were written
    if "ONE shared es_kwargs dict" in label:
        return ("shared es_kwargs", tuple(sorted({e.get("es", "") for e in case["emitters"]
                                                  if e.get("eskw") is not None})))
    if "changed nothing it draws" in label:  # run (iii): the kind of the component whose seed was changed
        ch = case.get("change", 0) % (len(case["emitters"]) + 1)
        who = case["archive"]["kind"] if ch == 0 else case["emitters"][ch - 1]["kind"]
        return (re.sub(r"\(child.*?\)", "", label), who)
    return (label, tuple(sorted({e["kind"] + "/" + str(e.get("es", "")) for e in case["emitters"]})))


def nontrivial(case):
    if case.get("_rejected") or len(case["ops"]) < 2:
        return False
    return any(op["a"] != op["b"] for op in case["ops"])


def canon(case):
    return json.dumps({k: v for k, v in case.items() if not k.startswith("_") and k not in
                       ("stratum", "case_index", "shrunk_from")}, sort_keys=True)


# --------------------------------------------------------------------------
# entry points


def run(ctx):
    t_run = time.time()
    if hasattr(ctx, "c09_t_translated"):
        ctx.extra["phase_seconds"]["build_and_audit_incl_lock_wait"] = round(t_run - ctx.c09_t_translated, 2)
    _init_spies()
    bad = getattr(ctx, "c09_bad_sites", None)
    if bad is None:  # run() called without translate(): still report the sites
        translate(ctx)
        bad = ctx.c09_bad_sites
    broken = bool(bad) or bool(getattr(ctx, "c09_bad_spawns", []))
    # (vi) the k-means archive under 8 OpenMP threads, in a fresh interpreter (2-3 s)
    probe_failures = run_probe(ctx, 5 if ctx.quick else 25)
    for f, c in probe_failures[:2]:
        ctx.fail(f, c)
    gens = strata(ctx)
    order = ["archives", "es", "dqd", "mixed", "eskw", "observer"]
    if broken:
        # a broken obligation directs the search for a concrete failing input (DESIGN 2.8): strata that
        # exercise the files of the offending sites first, every stratum is run, and the search is extended
        # when the first pass found nothing
        files = " ".join(s["file"] for s in bad)
        pri = [n for n, kw in (("archives", "archives/"), ("es", "emitters/"), ("dqd", "gradient"),
                               ("mixed", "schedulers/")) if kw in files]
        order = pri + [n for n in order if n not in pri]
        ctx.notes.append(f"proof obligation broken by the generated table ({len(bad)} site(s) not seeded, "
                         f"{len(getattr(ctx, 'c09_bad_spawns', []))} spawn(s) not separated): searching for a "
                         f"concrete failing input, strata order {order}")
    plan = {  # stratum -> (cases, time budget in s)
        "archives": (ctx.n(16, 700), 10 if ctx.quick else 120),
        # the budgets of es / dqd are caps that include numba's one-off compilation of the native strategies
        # (about 12 s per process, paid by whichever stratum uses them first); the cases themselves take ~0.1 s
        "es": (ctx.n(12, 1000), 18 if ctx.quick else 200),
        "dqd": (ctx.n(10, 500), 10 if ctx.quick else 90),
        "mixed": (ctx.n(6, 700), 6 if ctx.quick else 110),
        "eskw": (ctx.n(7, 500), 6 if ctx.quick else 80),
        "observer": (ctx.n(4, 150), 8 if ctx.quick else 60),
    }
    # (ii) in a fresh interpreter (about 2 s each): quick 1 case, thorough 8 per stratum
    # (plus one per stratum and round in the extended search after a broken proof obligation)
    n_fresh = {name: (8 if not ctx.quick else (1 if name == "archives" else 0)) for name in plan}
    hard_limit = 30 if ctx.quick else 570  # s of wall time after which failures are no longer shrunk / sought
    seen_sigs = {}

    def case_id(case):
        a = case["archive"]
        return (case.get("stratum"), case.get("case_index"), a["kind"], a.get("method"), a["seed"])

    def make_runner(name):
        seen = [0]

        def runner(case):
            if seen_sigs and ctx.elapsed() > hard_limit:
                ctx.count("time-limit-skip")
                return None
            seen[0] += 1
            base = name.split("-")[0]
            if n_fresh.get(base, 0) > 0 and "fresh" not in case and "case_index" in case and not has_pycma(case) \
                    and seen[0] % 7 == 3:
                case["fresh"] = True  # (ii) additionally resumes this case in a fresh interpreter
                n_fresh[base] -= 1
            f = run_case(case, ctx)
            if f is not None:
                # report each distinct failure once (same archive kind / centroid method / failing observable)
                owner = seen_sigs.setdefault(signature(case, f), case_id(case))
                if owner != case_id(case):
                    ctx.count("duplicate-failure-suppressed")
                    return None
                if "shrunk_from" not in case and not case.get("_minimised"):
                    minimise(case, f)
                return f
            if nontrivial(case):
                ctx.mark_nontrivial(canon(case))
            if not case.get("_rejected"):
                ctx.count(f"{name}:archive={case['archive']['kind']}"
                          + (f"/{case['archive']['method']}" if case["archive"]["kind"] == "cvt" else ""))
                for e in case["emitters"]:
                    ctx.count("emitter=" + e["kind"] + (f"/{e['es']}" if "es" in e else ""))
                ctx.count("scheduler=" + case["sched"])
                for spec in [case["archive"]] + case["emitters"]:
                    ctx.count("seedkind=" + seed_kind(spec))
            return None

        return runner

    for name in order:
        n_cases, budget = plan[name]
        ctx.explore(name, gens[name], make_runner(name), n_cases, nontrivial=lambda c: False, shrink_key="ops",
                    time_budget=budget, max_fail=4)
        if ctx.failures and not broken:
            break
    if broken and not ctx.failures:
        # extended search: more cases of every stratum, as long as the tier's time allows
        limit = 36 if ctx.quick else 560
        rnd = 0
        while ctx.elapsed() < limit and rnd < 6 and not ctx.failures:
            rnd += 1
            for name in order:
                left = limit - ctx.elapsed()
                if left <= 1:
                    break
                n_fresh[name] += 1
                ctx.explore(f"{name}-extended{rnd}", gens[name], make_runner(name), plan[name][0],
                            nontrivial=lambda c: False, shrink_key="ops", time_budget=min(left, plan[name][1]),
                            max_fail=4)
        ctx.notes.append(f"extended search: {rnd} extra round(s), "
                         + ("a failing input was found" if ctx.failures else "no failing input found"))
    if broken and not any(f.kind == "oracle" for f, _ in ctx.failures):
        # no concrete failing input: name the rows of the regenerated table that break T09.3 / T09.4
        ctx.fail(Failure("corr", "regenerated site table breaks " + site_table_summary(ctx)),
                 {"stratum": "site-table",
                  "sites": [{k: s[k] for k in ("file", "line", "scope", "kind", "api", "note")}
                            | {"prov": s["prov"][0]} for s in bad],
                  "spawns": [{"file": sp["file"], "line": sp["line"], "consumers": [list(c) for c in sp["consumers"]]}
                             for sp in ctx.c09_bad_spawns]})
    rejected = sum(v for k, v in ctx.dist.items() if k.startswith("rejected:"))
    if ctx.evaluations and rejected * 4 > ctx.evaluations:
        ctx.notes.append(f"warning: {rejected} of {ctx.evaluations} generated pipelines were rejected by pyribs")
    uniq, kept = set(), []
    for f, c in ctx.failures:
        sig = (signature(c, f) if "archive" in c else ("probe", c.get("seed"))
               if c.get("stratum") == "kmeans-thread-probe" else ("site-table",))
        if sig in uniq:
            ctx.count("duplicate-failure-suppressed")
            continue
        uniq.add(sig)
        kept.append((f, {k: v for k, v in c.items() if not k.startswith("_")}))
    ctx.failures[:] = kept
    ctx.extra.setdefault("phase_seconds", {})["double_runs"] = round(time.time() - t_run, 2)
    ctx.extra["double_runs"] = {
        "pipelines_per_case": "5 (a, b, refused calls interleaved, pickled, changed seed) + fresh-process "
                              "resumption for a few cases",
        "observables": "CVT centroids, every ask()/ask_dqd() batch, add feedback per emitter and tell, "
                       "archive.data() (all fields, sorted by index), archive.stats, a final sample_elites draw, "
                       "result archive, np.random / random state around every library call",
    }


def site_table_summary(ctx):
    parts = []
    if ctx.c09_bad_sites:
        parts.append("T09.3 all_sites_seeded: " + "; ".join(
            f"{s['file']}:{s['line']} {s['api']} is {s['prov'][0]}" for s in ctx.c09_bad_sites[:6]))
    if ctx.c09_bad_spawns:
        parts.append("T09.4 spawn_distinct: " + "; ".join(
            f"{sp['file']}:{sp['line']} children handed out as {[(c[1], c[2]) for c in sp['consumers']]}"
            for sp in ctx.c09_bad_spawns[:4]))
    return " | ".join(parts)


PROBE = os.path.join(core.VERIF, "harness", "c09_kmeans_probe.py")
PROBE_DISTINCT = [("0", "1"), ("np.int64(0)", "1"), ("1", "SeedSequence(0)")]  # pairs of seeds that must differ


def kmeans_thread_probe(reps, labels=None):
    """(vi) `./check` pins OMP_NUM_THREADS / OPENBLAS_NUM_THREADS to 1, which hides every effect of the order in
    which OpenMP threads reduce.  A fresh interpreter with 8 threads (the tree under test first on its path)
    constructs CVTArchive(centroid_method="kmeans", cells=50, samples=4000) `reps` times for each of the seeds 0,
    np.int64(0), 1, SeedSequence(0).  Returns (list of (seed label, what), info)."""
    env = dict(os.environ)
    for k in ("OMP_NUM_THREADS", "OPENBLAS_NUM_THREADS", "MKL_NUM_THREADS"):
        env[k] = "8"
    env["PYTHONPATH"] = os.pathsep.join([core.REPO] + [x for x in env.get("PYTHONPATH", "").split(os.pathsep) if x])
    try:
        r = subprocess.run([sys.executable, PROBE, str(reps)] + list(labels or []), stdout=subprocess.PIPE,
                           stderr=subprocess.PIPE, text=True, timeout=300, env=env, cwd="/tmp", check=False)
    except subprocess.TimeoutExpired as e:
        raise core.Infra(f"k-means thread probe timed out: {e}") from e
    line = next((ln for ln in r.stdout.splitlines() if ln.startswith("C09PROBE ")), None)
    if line is None:
        raise core.Infra(f"k-means thread probe crashed: {r.stderr[-400:]}")
    res = json.loads(line[len("C09PROBE "):])
    fails = []
    for label, v in res["seeds"].items():
        if v["error"]:
            fails.append((label, f"CVTArchive(centroid_method='kmeans', seed={label}) was refused with "
                                 f"{v['error'].split(':')[0]}", v["error"]))
        elif v["distinct"] > 1:
            fails.append((label, f"CVTArchive(centroid_method='kmeans', cells=50, samples=4000, seed={label}) built "
                                 f"{res['reps']} times in one process with 8 OpenMP threads has {v['distinct']} "
                                 f"different centroid arrays (bitwise): k-means centroids are not a function of the seed",
                          f"largest difference {v['max_abs_diff']:.3g}"))
    first = {label: (v["digests"] or [None])[0] for label, v in res["seeds"].items()}
    for a, b in PROBE_DISTINCT:
        if a in first and b in first and first[a] is not None and first[a] == first[b]:
            fails.append((a, f"CVTArchive k-means centroids are identical for the different seeds {a} and {b}", None))
    if "0" in first and "np.int64(0)" in first and None not in (first["0"], first["np.int64(0)"]) \
            and first["0"] != first["np.int64(0)"] and not any(f[0] in ("0", "np.int64(0)") for f in fails):
        fails.append(("np.int64(0)", "CVTArchive k-means centroids differ between seed=0 and seed=np.int64(0)", None))
    return fails, {"reps": res["reps"], "openmp_threads": res.get("openmp_threads"), "tree": res.get("ribs"),
                   "distinct_per_seed": {k: v["distinct"] for k, v in res["seeds"].items()}}


def run_probe(ctx, reps, labels=None):
    t0 = time.time()
    fails, info = kmeans_thread_probe(reps, labels)
    info["seconds"] = round(time.time() - t0, 2)
    ctx.extra["kmeans_thread_probe"] = info
    ctx.evaluations += 1
    ctx.count("vi:kmeans-thread-probe" + ("" if not fails else ":failed"))
    out = []
    for label, what, detail in fails:
        f = Failure("oracle", what + " :: subprocess probe, OMP_NUM_THREADS=8", detail=detail)
        out.append((f, {"stratum": "kmeans-thread-probe", "seed": label, "reps": reps,
                        "ops": [], "note": "replay: harness/c09_kmeans_probe.py <reps> <seed> with 8 OpenMP threads"}))
    return out


def replay(ctx, case):
    _init_spies()
    if case.get("stratum") == "kmeans-thread-probe":
        got = run_probe(ctx, max(int(case.get("reps", 6)), 6), [case["seed"]])
        return got[0][0] if got else None
    if case.get("stratum") == "site-table":
        if not hasattr(ctx, "c09_bad_sites"):
            translate(ctx)
        if ctx.c09_bad_sites or ctx.c09_bad_spawns:
            return Failure("corr", "regenerated site table breaks " + site_table_summary(ctx))
        return None
    case = {k: v for k, v in case.items() if not k.startswith("_")}
    return run_case(case, ctx)


if __name__ == "__main__":
    # debugging aid: python harness/props/c09.py <case.json>
    c = json.load(open(sys.argv[1]))
    c = c.get("case", c)
    r = run_case(c)
    print("OK" if r is None else r.to_json())
