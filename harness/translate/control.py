"""Control-flow translator: decision logic of the archive transforms, read from the source tree under check.

`formulas.py` reads single expressions (and straight-line bodies) as rational functions.  This module executes a
function body *with branches* symbolically -- `if / else` statements, boolean-mask assignments `x[mask] = v`,
comparisons, `and / or / not`, `& | ~` on boolean arrays, conditional expressions, early `return`s -- and writes,
for every requested output, one Lean definition whose `if … then … else …` tree is the tree of the Python code.
Arrays are read row-wise (the value of one row of the batch); row selections `x[mask]` and
`{name: arr[mask] for …}` keep the row's value.

Floats are read as `Pyribs.E` (`PyribsModel/ExtRat.lean`): −∞, a finite rational, or "anything else"; `<` treats
−∞ as below every finite value, arithmetic on anything but two finite values gives `E.bad` -- so a theorem that a
generated output equals `E.fin (model value)` also says that no arithmetic touched `threshold_min = -inf`.

The output goes to `lean/PyribsGen/Control.lean`; `PyribsProofs/GenFArch.lean` proves every generated definition
equal to the hand-written archive model's function (`Arch.status`, `Arch.canInsert`, `Arch.baseline`,
`Arch.newThrSingle`, `Arch.newThrBatch`, the term of `Arch.objSumDelta`, the `obj_max` rule of `Arch.statsUpdate`).
Anything the reader does not understand makes that function untranslatable: its outputs become constants and the
theorems about them stop compiling (a broken obligation, handled as DESIGN 7.2 says).
"""
import ast
import copy
import os
import sys

sys.path.insert(0, os.path.dirname(os.path.dirname(os.path.abspath(__file__))))
from translate.formulas import Untranslatable, find_function, call_name, exact_literal, IDENTITY_CALLS

E_IN = lambda v: (v, "E")            # noqa: E731
B_IN = lambda v: (v, "Bool")         # noqa: E731
N_IN = lambda v: (v, "Nat")          # noqa: E731

SPECS = [
    dict(prefix="single", file="ribs/archives/_transforms.py", func="single_entry_with_threshold",
         row0=True,
         inputs={"occupied": B_IN("occ"), "cur_data['threshold']": E_IN("t"), "new_data['objective']": E_IN("f"),
                 "extra_args['threshold_min']": E_IN("tmin"), "extra_args['learning_rate']": E_IN("lr"),
                 "extra_args['dtype']": ("dtype", "Opaque")},
         vars=[("occ", "Bool"), ("t", "E"), ("tmin", "E"), ("lr", "E"), ("f", "E")],
         outputs={"Status": ("add_info['status']", "Nat"), "Value": ("add_info['value']", "E"),
                  "NewThr": ("new_data['threshold']", "Option E"), "Writes": ("__ret__", "Bool")}),
    dict(prefix="batch", file="ribs/archives/_transforms.py", func="batch_entries_with_threshold",
         stop_before="archive_argmax", skip_tests=["not np.any(can_insert)"],
         inputs={"occupied": B_IN("occ"), "cur_data['threshold']": E_IN("t"), "new_data['objective']": E_IN("f"),
                 "extra_args['threshold_min']": E_IN("tmin"), "extra_args['learning_rate']": E_IN("lr"),
                 "extra_args['dtype']": ("dtype", "Opaque"), "len(indices)": ("n", "Opaque"),
                 "_compute_thresholds(indices, new_data['objective'], cur_threshold, learning_rate, dtype)":
                     E_IN("cmae")},
         vars=[("occ", "Bool"), ("t", "E"), ("tmin", "E"), ("f", "E"), ("cmae", "E")],
         outputs={"CanInsert": ("can_insert", "Bool"), "Status": ("add_info['status']", "Nat"),
                  "Value": ("add_info['value']", "E"), "NewThr": ("new_threshold", "E")}),
    dict(prefix="objSum", file="ribs/archives/_transforms.py", func="compute_objective_sum",
         inputs={"occupied": B_IN("occ"), "cur_data['objective']": E_IN("o"), "new_data['objective']": E_IN("f"),
                 "extra_args['objective_sum']": E_IN("s"), "len(indices) == 0": B_IN("noRows")},
         sums={"np.sum(new_data['objective'] - cur_objective)": ("Term", "sigma")},
         vars=[("occ", "Bool"), ("o", "E"), ("f", "E"), ("s", "E"), ("noRows", "Bool"), ("sigma", "E")],
         outputs={"New": ("add_info['objective_sum']", "E")}),
    dict(prefix="statsMax", file="ribs/archives/_archive_base.py", func="ArchiveBase._stats_update",
         start_at="If", stop_before="self._stats",
         inputs={"self._stats.obj_max is None": B_IN("noMax"), "self._stats.obj_max": E_IN("objMax"),
                 "new_best_elite['objective']": E_IN("best")},
         ignore_targets=["new_best_elite"],
         marks={"self._best_elite": "ReplacesBest"},
         vars=[("noMax", "Bool"), ("objMax", "E"), ("best", "E")],
         outputs={"New": ("new_obj_max", "E"), "ReplacesBest": ("__mark_self._best_elite__", "Bool")}),
]


def truthy(v):
    e, t = v
    if t == "Bool":
        return e
    if t in ("Nat", "Lit"):
        return f"({e} != 0)"
    raise Untranslatable(f"truth value of a {t}")


def as_e(v):
    e, t = v
    if t == "E":
        return e
    if t == "Lit":
        return f"(E.fin ({e} : Rat))"
    raise Untranslatable(f"a {t} where a float is expected")


def unify(a, b):
    """two values of one conditional: (lean a, lean b, type)"""
    ta, tb = a[1], b[1]
    if ta == tb and ta != "Lit":
        return a[0], b[0], ta
    if {ta, tb} <= {"Nat", "Lit"}:
        return a[0], b[0], "Nat"
    if "E" in (ta, tb) and {ta, tb} <= {"E", "Lit"}:
        return as_e(a), as_e(b), "E"
    raise Untranslatable(f"branches of types {ta} / {tb}")


def bx_expr(node, sym, spec, depth=0):
    if depth > 16:
        raise Untranslatable("expression too deep")
    text = ast.unparse(node)
    if text in sym:
        return sym[text]
    d = depth + 1
    if isinstance(node, ast.Constant):
        v = node.value
        if isinstance(v, bool):
            return ("true" if v else "false"), "Bool"
        if isinstance(v, int) and v >= 0:
            return str(v), "Lit"
        if isinstance(v, float):
            return f"(E.fin {exact_literal(v)})", "E"
        raise Untranslatable(f"literal {v!r}")
    if isinstance(node, ast.UnaryOp):
        if isinstance(node.op, ast.USub) and ast.unparse(node.operand) in ("np.inf", "numpy.inf", "math.inf"):
            return "E.negInf", "E"
        if isinstance(node.op, (ast.Not, ast.Invert)):
            o = bx_expr(node.operand, sym, spec, d)
            if isinstance(node.op, ast.Invert) and o[1] != "Bool":
                raise Untranslatable("`~` of something that is not a boolean array")
            return f"(!{truthy(o)})", "Bool"
        raise Untranslatable(f"unary {type(node.op).__name__}")
    if isinstance(node, ast.BoolOp):
        parts = [truthy(bx_expr(v, sym, spec, d)) for v in node.values]
        op = " && " if isinstance(node.op, ast.And) else " || "
        return "(" + op.join(parts) + ")", "Bool"
    if isinstance(node, ast.BinOp):
        a = bx_expr(node.left, sym, spec, d)
        b = bx_expr(node.right, sym, spec, d)
        if isinstance(node.op, (ast.BitAnd, ast.BitOr)):
            if a[1] != "Bool" or b[1] != "Bool":
                raise Untranslatable("`&` / `|` of something that is not a boolean array")
            return f"({a[0]} {'&&' if isinstance(node.op, ast.BitAnd) else '||'} {b[0]})", "Bool"
        ops = {ast.Add: "E.add", ast.Sub: "E.sub", ast.Mult: "E.mul"}
        if type(node.op) not in ops:
            raise Untranslatable(f"operator {type(node.op).__name__}")
        return f"({ops[type(node.op)]} {as_e(a)} {as_e(b)})", "E"
    if isinstance(node, ast.Compare) and len(node.ops) == 1:
        op, rhs = node.ops[0], node.comparators[0]
        a = bx_expr(node.left, sym, spec, d)
        b = bx_expr(rhs, sym, spec, d)
        if isinstance(op, (ast.Eq, ast.NotEq)):
            if b == ("E.negInf", "E") and a[1] == "E":
                r = f"(E.isNegInf {a[0]})"
            elif {a[1], b[1]} <= {"Nat", "Lit"}:
                r = f"({a[0]} == {b[0]})"
            else:
                raise Untranslatable(f"comparison {text[:60]}")
            return (r if isinstance(op, ast.Eq) else f"(!{r})"), "Bool"
        if {a[1], b[1]} <= {"Nat", "Lit"}:
            sym_ = {ast.Lt: "<", ast.Gt: ">", ast.LtE: "≤", ast.GtE: "≥"}.get(type(op))
            if sym_ is None:
                raise Untranslatable(f"comparison {text[:60]}")
            return f"(decide ({a[0]} {sym_} {b[0]}))", "Bool"
        x, y = as_e(a), as_e(b)
        if isinstance(op, ast.Lt):
            return f"(E.lt {x} {y})", "Bool"
        if isinstance(op, ast.Gt):
            return f"(E.lt {y} {x})", "Bool"
        if isinstance(op, ast.LtE):
            return f"(E.le {x} {y})", "Bool"
        if isinstance(op, ast.GtE):
            return f"(E.le {y} {x})", "Bool"
        raise Untranslatable(f"comparison {text[:60]}")
    if isinstance(node, ast.IfExp):
        c = truthy(bx_expr(node.test, sym, spec, d))
        x, y, t = unify(bx_expr(node.body, sym, spec, d), bx_expr(node.orelse, sym, spec, d))
        return f"(if {c} then {x} else {y})", t
    if isinstance(node, ast.List) and len(node.elts) == 1:
        return bx_expr(node.elts[0], sym, spec, d)
    if isinstance(node, ast.Call):
        fn = call_name(node.func)
        if text in spec.get("sums", {}):
            oname, var = spec["sums"][text]
            spec["_side"][oname] = bx_expr(node.args[0], sym, spec, d)
            return var, "E"
        if fn in IDENTITY_CALLS and node.args:
            return bx_expr(node.args[0], sym, spec, d)
        if fn == "np.array" and node.args and isinstance(node.args[0], ast.List) and len(node.args[0].elts) == 1:
            return bx_expr(node.args[0].elts[0], sym, spec, d)
        if fn == "np.zeros":
            dt = next((ast.unparse(k.value) for k in node.keywords if k.arg == "dtype"), "")
            return ("0", "Lit") if "int" in dt else ("(E.fin (0 : Rat))", "E")
        raise Untranslatable(f"call {fn}(...)")
    if isinstance(node, ast.Subscript):
        base = ast.unparse(node.value)
        idx = node.slice
        if isinstance(idx, ast.Constant) and idx.value == 0 and spec.get("row0"):
            return bx_expr(node.value, sym, spec, d)          # `x[0]`: the one row of a single-entry call
        if isinstance(idx, ast.Constant) and isinstance(idx.value, str):
            raise Untranslatable(f"{text} is not bound")
        m = bx_expr(idx, sym, spec, d)
        if m[1] == "Bool":
            return bx_expr(node.value, sym, spec, d)          # `x[mask]`: row selection keeps the row's value
        raise Untranslatable(f"subscript {base}[{ast.unparse(idx)[:30]}]")
    raise Untranslatable(f"expression {text[:60]}")


def merge(c, s1, s2):
    out = {}
    for k in list(s1) + [k for k in s2 if k not in s1]:
        a, b = s1.get(k), s2.get(k)
        if a == b:
            out[k] = a
        elif a is None or b is None:
            v = a if a is not None else b
            if v[1] in ("E", "Nat", "Lit"):
                ty = "E" if v[1] == "E" else "Nat"
                some = f"some {as_e(v) if ty == 'E' else v[0]}"
                out[k] = ((f"(if {c} then {some} else none)" if a is not None else
                           f"(if {c} then none else {some})"), f"Option {ty}")
            elif v[1] == "Bool" and k.startswith("__mark_"):
                out[k] = ((f"(if {c} then {v[0]} else false)" if a is not None else
                           f"(if {c} then false else {v[0]})"), "Bool")
            # anything else assigned on one path only is not an output we can express: drop it
        else:
            x, y, t = unify(a, b)
            out[k] = (f"(if {c} then {x} else {y})", t)
    return out


def target_text(t):
    if isinstance(t, (ast.Name, ast.Attribute)):
        return ast.unparse(t)
    if isinstance(t, ast.Subscript) and isinstance(t.slice, ast.Constant) and isinstance(t.slice.value, str):
        return ast.unparse(t)
    return None


def bx_block(stmts, sym, spec, src):
    """returns (state, terminated)"""
    for st in stmts:
        line = " ".join(ast.unparse(st).split())
        if isinstance(st, ast.Expr) and isinstance(st.value, ast.Constant):
            continue
        if isinstance(st, ast.Assign) and len(st.targets) == 1:
            tgt = st.targets[0]
            tt = target_text(tgt)
            if tt is not None and tt == spec.get("stop_before"):
                return sym, "stop"
            if tt is not None and tt in spec.get("ignore_targets", []):
                continue
            if tt is not None and tt in spec.get("marks", {}):
                sym[f"__mark_{tt}__"] = ("true", "Bool")
                src.append(line[:120])
                continue
            if isinstance(st.value, ast.DictComp):
                comp = st.value
                # `{name: arr[mask] for name, arr in d.items()}`: the same row selection applied to every field
                if len(comp.generators) == 1 and isinstance(comp.value, ast.Subscript) \
                        and bx_expr(comp.value.slice, sym, spec)[1] in ("Bool", "Opaque"):
                    src.append(line[:120])
                    continue
                raise Untranslatable(f"dict comprehension at line {st.lineno}")
            if tt is not None:
                # plain renaming of an input (`dtype = extra_args['dtype']`) or a computed value
                vt = ast.unparse(st.value)
                if isinstance(tgt, ast.Name) and isinstance(st.value, ast.Subscript) \
                        and ast.unparse(st.value.value) == tgt.id:
                    m = bx_expr(st.value.slice, sym, spec)
                    if m[1] in ("Bool", "Opaque") and tgt.id not in sym:
                        src.append(line[:120])
                        continue                         # row selection of something we do not track (`indices`)
                sym[tt] = sym[vt] if vt in sym else bx_expr(st.value, sym, spec)
                src.append(line[:160])
                continue
            if isinstance(tgt, ast.Subscript):
                base = target_text(tgt.value)
                m = bx_expr(tgt.slice, sym, spec)
                if base is None or m[1] != "Bool" or base not in sym:
                    raise Untranslatable(f"assignment target {ast.unparse(tgt)[:60]}")
                new = bx_expr(st.value, sym, spec)
                x, y, t = unify(new, sym[base])
                sym[base] = (f"(if {m[0]} then {x} else {y})", t)
                src.append(line[:160])
                continue
            raise Untranslatable(f"assignment target {ast.unparse(tgt)[:60]}")
        if isinstance(st, ast.If):
            ttext = ast.unparse(st.test)
            if ttext in spec.get("skip_tests", []):
                src.append(f"[batch-level early exit skipped: if {ttext}]")
                continue
            if len(st.body) == 1 and isinstance(st.body[0], ast.Raise) and not st.orelse:
                src.append(f"[guard: if {ttext[:60]}: raise]")
                continue
            c = truthy(bx_expr(st.test, sym, spec))
            s1, t1 = bx_block(st.body, copy.copy(sym), spec, src)
            s2, t2 = bx_block(st.orelse, copy.copy(sym), spec, src)
            if t1 == "stop" or t2 == "stop":
                raise Untranslatable("the stop marker is inside a branch")
            if bool(t1) != bool(t2):
                raise Untranslatable(f"only one branch of `if {ttext[:40]}` returns")
            sym = merge(c, s1, s2)
            src.append(f"if {ttext[:100]} …")
            if t1:
                return sym, "ret"
            continue
        if isinstance(st, ast.Return):
            first = st.value.elts[0] if isinstance(st.value, ast.Tuple) and st.value.elts else st.value
            ft = ast.unparse(first) if first is not None else ""
            if ft == "indices":
                sym["__ret__"] = ("true", "Bool")
            elif ft.startswith("np.array([]"):
                sym["__ret__"] = ("false", "Bool")
            else:
                raise Untranslatable(f"return {ft[:40]}")
            src.append(line[:100])
            return sym, "ret"
        raise Untranslatable(f"statement {type(st).__name__} at line {st.lineno}")
    return sym, ""


def translate_spec(repo, spec):
    tree = ast.parse(open(os.path.join(repo, spec["file"])).read())
    func = find_function(tree, spec["func"])
    spec = dict(spec, _side={})
    body = func.body
    if spec.get("start_at") == "If":
        k = next((i for i, s in enumerate(body) if isinstance(s, ast.If)), None)
        if k is None:
            raise Untranslatable("no if statement")
        body = body[k:]
    src = []
    sym, _ = bx_block(body, dict(spec["inputs"]), spec, src)
    outs = {}
    for oname, (key, ty) in spec["outputs"].items():
        if key not in sym:
            if ty == "Bool" and key.startswith("__mark_"):
                outs[oname] = ("false", "Bool")
                continue
            raise Untranslatable(f"{key} is never assigned")
        e, t = sym[key]
        if t == "Lit":
            e, t = (e, "Nat") if ty == "Nat" else (as_e((e, t)), "E")
        if t != ty:
            raise Untranslatable(f"{key} has type {t}, expected {ty}")
        outs[oname] = (e, t)
    for oname, v in spec["_side"].items():
        outs[oname] = (as_e(v), "E")
    for oname, _ in spec.get("sums", {}).values():
        if oname not in outs:
            raise Untranslatable(f"the sum for {oname} was not met")
    return outs, func.lineno, "; ".join(src)



# ---------------------------------------------------------------------------------------------------------------
# loop bodies: the dispatch loops of the schedulers (`pos = 0; for …: end = pos + n; …arr[pos:end]…; pos = end`)

from translate.formulas import sl_expr   # noqa: E402  (natural-number arithmetic)

LOOP_SPECS = [
    dict(prefix="schedTell", file="ribs/schedulers/_scheduler.py", func="Scheduler.tell", counter="pos",
         inputs={"n": ("n", "Nat")}, vars=[("pos", "Nat"), ("n", "Nat")], outputs={}),
    dict(prefix="schedTellDqd", file="ribs/schedulers/_scheduler.py", func="Scheduler.tell_dqd", counter="pos",
         inputs={"n": ("n", "Nat")}, vars=[("pos", "Nat"), ("n", "Nat")], outputs={}),
    dict(prefix="banditTell", file="ribs/schedulers/_bandit_scheduler.py", func="BanditScheduler.tell", counter="pos",
         inputs={"self._num_emitted[i]": ("n", "Nat"), "self._selection[i]": ("sel", "Nat"),
                 "self._success[i]": ("suc", "Nat")},
         counts={"np.count_nonzero": "cnt"},
         vars=[("pos", "Nat"), ("n", "Nat"), ("sel", "Nat"), ("suc", "Nat"), ("cnt", "Nat")],
         outputs={"Sel": "self._selection[i]", "Suc": "self._success[i]"}),
]


def loop_step(repo, spec):
    """one iteration of a dispatch loop: the slice bounds every per-row array is cut with, the counter afterwards,
    and the per-emitter counters it updates; returns ({output: (lean, 'Nat')}, line, digest)"""
    tree = ast.parse(open(os.path.join(repo, spec["file"])).read())
    func = find_function(tree, spec["func"])
    ctr = spec["counter"]
    loop, init = None, None
    for prev, st in zip(func.body, func.body[1:]):
        if isinstance(st, ast.For) and isinstance(prev, ast.Assign) and len(prev.targets) == 1 \
                and ast.unparse(prev.targets[0]) == ctr:
            loop, init = st, prev.value
    if loop is None:
        raise Untranslatable(f"no `{ctr} = …` directly followed by a for loop")
    if loop.orelse:
        raise Untranslatable("for … else")
    e0, t0 = sl_expr(init, {})
    if t0 not in ("Nat", "Lit"):
        raise Untranslatable(f"initial value of {ctr} is not a natural number")
    sym = {ctr: (ctr, "Nat")}
    sym.update(spec["inputs"])
    slices, src = [], []

    def note_slices(node):
        for sub in ast.walk(node):
            if isinstance(sub, ast.Subscript) and isinstance(sub.slice, ast.Slice):
                sl = sub.slice
                if sl.step is not None or sl.lower is None or sl.upper is None:
                    raise Untranslatable(f"slice {ast.unparse(sub)[:40]}")
                lo, lt = sl_expr(sl.lower, sym)
                hi, ht = sl_expr(sl.upper, sym)
                if lt not in ("Nat", "Lit") or ht not in ("Nat", "Lit"):
                    raise Untranslatable("slice bounds that are not natural numbers")
                slices.append((lo, hi))

    def value_of(node):
        if isinstance(node, ast.Call) and call_name(node.func) in spec.get("counts", {}) and len(node.args) == 1:
            note_slices(node.args[0])
            if not (isinstance(node.args[0], ast.Subscript) and isinstance(node.args[0].slice, ast.Slice)):
                raise Untranslatable("count over something that is not a slice of the batch")
            return spec["counts"][call_name(node.func)], "Nat"
        return sl_expr(node, sym)

    for st in loop.body:
        line = " ".join(ast.unparse(st).split())
        if isinstance(st, ast.Assign) and len(st.targets) == 1 and isinstance(st.targets[0], ast.Name):
            name = st.targets[0].id
            vt = ast.unparse(st.value)
            if vt in sym:
                sym[name] = sym[vt]
            else:
                try:
                    sym[name] = value_of(st.value)
                except Untranslatable:
                    sym.pop(name, None)              # not arithmetic (`emitter = self._emitter_pool[i]`): not tracked
                    continue
            src.append(line[:80])
        elif isinstance(st, ast.AugAssign) and isinstance(st.op, ast.Add):
            key = ast.unparse(st.target)
            if key not in sym:
                raise Untranslatable(f"`{key} += …` on something that is not an input")
            v, vt = value_of(st.value)
            if vt not in ("Nat", "Lit") or sym[key][1] != "Nat":
                raise Untranslatable(f"`{key} += …` is not over naturals")
            sym[key] = (f"({sym[key][0]} + {v})", "Nat")
            src.append(line[:100])
        elif isinstance(st, ast.Expr) and isinstance(st.value, ast.Call):
            note_slices(st.value)
            src.append(line[:60] + " …")
        else:
            raise Untranslatable(f"statement {type(st).__name__} at line {st.lineno} of the loop body")
    if not slices:
        raise Untranslatable("the loop body cuts no slice")
    if len(set(slices)) != 1:
        raise Untranslatable(f"per-row arrays are cut with different bounds: {sorted(set(slices))}")
    lo, hi = slices[0]
    outs = {"Init": (e0, "Nat"), "Lo": (lo, "Nat"), "Hi": (hi, "Nat"), "Next": sym[ctr]}
    for oname, key in spec["outputs"].items():
        outs[oname] = sym[key]
    if any(t not in ("Nat", "Lit") for _, t in outs.values()):
        raise Untranslatable("an output is not a natural number")
    return outs, loop.lineno, f"{ctr} = {ast.unparse(init)}; for {ast.unparse(loop.target)} in " \
        f"{ast.unparse(loop.iter)[:60]}: " + "; ".join(src) + f"  [{len(slices)} slices, all [{lo}:{hi}]]"


# ---------------------------------------------------------------------------------------------------------------
# effect traces: which collaborator calls a method makes, in which order, under which condition, and how it moves
# its counters (`tell` of the evolution-strategy emitters: C10, C19)

EFFECT_CALLS = {"self._ranker.rank": "rank", "self._opt.tell": "optTell", "self._grad_opt.step": "gradStep",
                "self.archive.sample_elites": "sampleElite", "self._grad_opt.reset": "gradReset",
                "self._opt.reset": "optReset", "self._ranker.reset": "rankerReset"}
EFFECT_TESTS = {"self._opt.check_stop(ranking_values[indices])": ("stop", "checkStop"),
                "self._check_restart(new_sols)": ("fires", None), "num_parents > 0": ("npPos", None)}

EFFECT_SPECS = [
    dict(prefix="esTell", file="ribs/emitters/_evolution_strategy_emitter.py", func="EvolutionStrategyEmitter.tell"),
    dict(prefix="gaeTell", file="ribs/emitters/_gradient_arborescence_emitter.py",
         func="GradientArborescenceEmitter.tell"),
]
EFFECT_VARS = [("stop", "Bool"), ("fires", "Bool"), ("npPos", "Bool")]
EFFECT_COUNTERS = {"self._itrs": ("Itrs", "itrs", None), "self._restarts": ("Restarts", "restarts", "incRestarts")}


def _calls_in(node):
    return [call_name(n.func) for n in ast.walk(node) if isinstance(n, ast.Call)]


def effects(repo, spec):
    tree = ast.parse(open(os.path.join(repo, spec["file"])).read())
    func = find_function(tree, spec["func"])
    src = []

    def test_expr(node, eff):
        """Lean Bool of a test; the calls it makes are appended to `eff` (evaluation order, `or` short-circuits are
        read as both evaluated: `check_stop` has no effect on the emitter)"""
        text = ast.unparse(node)
        if text in EFFECT_TESTS:
            var, name = EFFECT_TESTS[text]
            if name:
                eff.append(f'["{name}"]')
            return var
        if isinstance(node, ast.BoolOp):
            parts = [test_expr(v, eff) for v in node.values]
            return "(" + (" || " if isinstance(node.op, ast.Or) else " && ").join(parts) + ")"
        raise Untranslatable(f"test {text[:60]}")

    def block(stmts, counters):
        eff = []
        for st in stmts:
            line = " ".join(ast.unparse(st).split())
            if isinstance(st, ast.Expr) and isinstance(st.value, ast.Constant):
                continue
            if isinstance(st, ast.If) and len(st.body) == 1 and isinstance(st.body[0], ast.Raise) and not st.orelse:
                src.append(f"[guard: if {ast.unparse(st.test)[:50]}: raise]")
                continue
            if isinstance(st, ast.AugAssign) and isinstance(st.op, ast.Add) and ast.unparse(st.target) in EFFECT_COUNTERS \
                    and isinstance(st.value, ast.Constant) and st.value.value == 1:
                key = ast.unparse(st.target)
                counters[key] = f"({counters[key]} + 1)"
                if EFFECT_COUNTERS[key][2]:
                    eff.append(f'["{EFFECT_COUNTERS[key][2]}"]')
                src.append(line)
                continue
            if isinstance(st, (ast.Assign, ast.Expr)):
                if isinstance(st, ast.Assign):
                    for t in st.targets:
                        names = t.elts if isinstance(t, ast.Tuple) else [t]
                        if not all(isinstance(n, ast.Name) for n in names):
                            raise Untranslatable(f"assignment to {ast.unparse(t)[:40]} (state we do not track)")
                known = [EFFECT_CALLS[c] for c in _calls_in(st.value) if c in EFFECT_CALLS]
                if isinstance(st, ast.Expr) and not known:
                    raise Untranslatable(f"call statement {line[:60]}")
                for name in known:
                    eff.append(f'["{name}"]')
                if known:
                    src.append(line[:70])
                continue
            if isinstance(st, ast.If):
                c = test_expr(st.test, eff)
                c1, c2 = dict(counters), dict(counters)
                e1, e2 = block(st.body, c1), block(st.orelse, c2)
                for k in counters:
                    if c1[k] != c2[k]:
                        counters[k] = f"(if {c} then {c1[k]} else {c2[k]})"
                    else:
                        counters[k] = c1[k]
                eff.append(f"(if {c} then {' ++ '.join(e1) if e1 else '[]'} else {' ++ '.join(e2) if e2 else '[]'})")
                src.append(f"if {ast.unparse(st.test)[:70]} …")
                continue
            raise Untranslatable(f"statement {type(st).__name__} at line {st.lineno}")
        return eff
    counters = {k: v[1] for k, v in EFFECT_COUNTERS.items()}
    eff = block(func.body, counters)
    return counters, " ++ ".join(eff) if eff else "[]", func.lineno, "; ".join(src)


# ---------------------------------------------------------------------------------------------------------------
# single boolean / float expressions of methods too long to execute as a whole (read like a `formulas.py` entry, but
# with comparisons and the E reading of floats)

EXPR_SPECS = [
    # ProximityArchive.add: admission of a candidate as a new entry
    dict(name="proxNovelEnough", file="ribs/archives/_proximity_archive.py", func="ProximityArchive.add",
         assign="novel_enough", inputs={"novelty": E_IN("nov"), "self.novelty_threshold": E_IN("thr")},
         vars=[("nov", "E"), ("thr", "E")], type="Bool"),
]


def expr_spec(repo, spec):
    tree = ast.parse(open(os.path.join(repo, spec["file"])).read())
    func = find_function(tree, spec["func"])
    hits = sorted((n.lineno, n) for n in ast.walk(func) if isinstance(n, ast.Assign) and len(n.targets) == 1
                  and ast.unparse(n.targets[0]) == spec["assign"])
    if len(hits) <= spec.get("nth", 0):
        raise Untranslatable(f"no assignment to {spec['assign']}")
    node = hits[spec.get("nth", 0)][1]
    e, t = bx_expr(node.value, dict(spec["inputs"]), dict(spec, _side={}))
    if t != spec["type"]:
        raise Untranslatable(f"{spec['assign']} has type {t}, expected {spec['type']}")
    return e, node.lineno, " ".join(ast.unparse(node).split())


# ---------------------------------------------------------------------------------------------------------------
# transform chains: which transforms `ArchiveBase.add` / `add_single` / `ProximityArchive.add` hand to the store, in
# which order, and under which condition the statistics are updated afterwards

CHAIN_NAME_SPECS = [
    dict(name="archAdd", file="ribs/archives/_archive_base.py", func="ArchiveBase.add"),
    dict(name="archAddSingle", file="ribs/archives/_archive_base.py", func="ArchiveBase.add_single"),
    dict(name="proxAdd", file="ribs/archives/_proximity_archive.py", func="ProximityArchive.add"),
]


def chain_names(repo, spec):
    tree = ast.parse(open(os.path.join(repo, spec["file"])).read())
    func = find_function(tree, spec["func"])
    calls = [n for n in ast.walk(func) if isinstance(n, ast.Call) and call_name(n.func) == "self._store.add"]
    if len(calls) != 1:
        raise Untranslatable(f"{len(calls)} calls of self._store.add")
    c = calls[0]
    if len(c.args) < 4 or not isinstance(c.args[3], ast.List) or not all(isinstance(e, ast.Name) for e in c.args[3].elts):
        raise Untranslatable("the transform chain is not a literal list of names")
    names = [e.id for e in c.args[3].elts]
    # the guard of the statistics update that follows
    guards = [n for n in ast.walk(func) if isinstance(n, ast.If) and any(
        isinstance(x, ast.Call) and call_name(x.func) == "self._stats_update" for x in ast.walk(n))]
    if len(guards) != 1:
        raise Untranslatable(f"{len(guards)} guarded calls of self._stats_update")
    g = " ".join(ast.unparse(guards[0].test).split())
    known = {"not np.all(add_info['status'] == 0)": "anyInserted", "add_info['status']": "anyInserted",
             "len(add_indices) > 0": "anyWritten", "len(add_info['status']) > 0 and (not np.all(add_info['status'] == 0))":
             "anyInserted"}
    if g not in known:
        raise Untranslatable(f"statistics guard `{g[:60]}`")
    return names, known[g], c.lineno, f"self._store.add(…, [{', '.join(names)}]); if {g}: self._stats_update(…)"


FALLBACK = {"Nat": "0", "E": "E.bad", "Bool": "false", "Option E": "none", "Option Nat": "none"}


def translate(repo, out_path):
    recs = []
    lines = ["import PyribsModel.ExtRat",
             "/-! GENERATED by harness/translate/control.py from the source tree under check -- do not edit.",
             "Decision logic of the archive transforms: the `if` tree of the Python code, one row of the batch at a",
             "time, floats read as `Pyribs.E`.  `PyribsProofs/GenFArch.lean` proves each definition equal to the",
             "hand-written archive model's function. -/",
             "namespace Pyribs.GenC", "open Pyribs", ""]
    for spec in SPECS:
        binder = " ".join(f"({v} : {t})" for v, t in spec["vars"])
        want = {o: ty for o, (_, ty) in spec["outputs"].items()}
        for o, _ in spec.get("sums", {}).values():
            want[o] = "E"
        try:
            outs, line, src = translate_spec(repo, spec)
            ok, why = True, ""
        except (Untranslatable, SyntaxError, OSError, StopIteration, KeyError, AttributeError) as e:
            outs, line, src, ok, why = {o: (FALLBACK[t], t) for o, t in want.items()}, 0, "", False, \
                f"{type(e).__name__}: {e}"
        lines.append(f"/-- `{spec['file']}:{spec['func']}`" + (f" line {line}: `{src[:600]}`" if ok else
                                                                f" -- TRANSLATION FAILED: {why}") + " -/")
        for oname in want:
            e, t = outs[oname]
            lines.append(f"def {spec['prefix']}{oname} {binder} : {t} :=\n  {e}")
        lines.append("")
        recs.append({"name": spec["prefix"], "file": spec["file"], "func": spec["func"], "line": line, "ok": ok,
                     "why": why, "python": src[:400],
                     "lean": "; ".join(f"{o} := {outs[o][0]}" for o in want)})
    for spec in LOOP_SPECS:
        names = ["Init", "Lo", "Hi", "Next"] + list(spec["outputs"])
        try:
            outs, line, src = loop_step(repo, spec)
            ok, why = True, ""
        except (Untranslatable, SyntaxError, OSError, StopIteration, KeyError, AttributeError) as e:
            outs, line, src, ok, why = {o: ("0", "Nat") for o in names}, 0, "", False, f"{type(e).__name__}: {e}"
        lines.append(f"/-- `{spec['file']}:{spec['func']}`" + (f" line {line}, one iteration of the dispatch loop: "
                                                                f"`{src[:500]}`" if ok else
                                                                f" -- TRANSLATION FAILED: {why}") + " -/")
        binder = " ".join(f"({v} : {t})" for v, t in spec["vars"])
        for oname in names:
            e, _ = outs[oname]
            lines.append(f"def {spec['prefix']}{oname}" + ("" if oname == "Init" else f" {binder}") + f" : Nat :=\n  {e}")
        lines.append("")
        recs.append({"name": spec["prefix"], "file": spec["file"], "func": spec["func"], "line": line, "ok": ok,
                     "why": why, "python": src[:400], "lean": "; ".join(f"{o} := {outs[o][0]}" for o in names)})
    for spec in EXPR_SPECS:
        binder = " ".join(f"({v} : {t})" for v, t in spec["vars"])
        try:
            e, line, src = expr_spec(repo, spec)
            ok, why = True, ""
        except (Untranslatable, SyntaxError, OSError, StopIteration, KeyError, AttributeError) as ex:
            e, line, src, ok, why = FALLBACK[spec["type"]], 0, "", False, f"{type(ex).__name__}: {ex}"
        lines.append(f"/-- `{spec['file']}:{spec['func']}`" + (f" line {line}: `{src[:200]}`" if ok else
                                                                f" -- TRANSLATION FAILED: {why}") + " -/")
        lines.append(f"def {spec['name']} {binder} : {spec['type']} :=\n  {e}")
        lines.append("")
        recs.append({"name": spec["name"], "file": spec["file"], "func": spec["func"], "line": line, "ok": ok,
                     "why": why, "python": src[:200], "lean": e})
    for spec in CHAIN_NAME_SPECS:
        try:
            names, guard, line, src = chain_names(repo, spec)
            ok, why = True, ""
        except (Untranslatable, SyntaxError, OSError, StopIteration, KeyError, AttributeError) as ex:
            names, guard, line, src, ok, why = [], "untranslatable", 0, "", False, f"{type(ex).__name__}: {ex}"
        lines.append(f"/-- `{spec['file']}:{spec['func']}`" + (f" line {line}: `{src[:200]}`" if ok else
                                                                f" -- TRANSLATION FAILED: {why}") + " -/")
        lst = "[" + ", ".join(f'"{n}"' for n in names) + "]"
        lines.append(f"def {spec['name']}Chain : List String :=\n  {lst}")
        lines.append(f"def {spec['name']}StatsGuard : String :=\n  \"{guard}\"")
        lines.append("")
        recs.append({"name": spec["name"] + "Chain", "file": spec["file"], "func": spec["func"], "line": line, "ok": ok,
                     "why": why, "python": src[:200], "lean": f"{lst}; guard {guard}"})
    for spec in EFFECT_SPECS:
        ebind = " ".join(f"({v} : {t})" for v, t in EFFECT_VARS)
        try:
            counters, eff, line, src = effects(repo, spec)
            ok, why = True, ""
        except (Untranslatable, SyntaxError, OSError, StopIteration, KeyError, AttributeError) as e:
            counters, eff, line, src, ok, why = {k: "0" for k in EFFECT_COUNTERS}, "[]", 0, "", False, \
                f"{type(e).__name__}: {e}"
        lines.append(f"/-- `{spec['file']}:{spec['func']}`" + (f" line {line}, counters and collaborator calls in call "
                                                                f"order: `{src[:500]}`" if ok else
                                                                f" -- TRANSLATION FAILED: {why}") + " -/")
        for key, (oname, var, _) in EFFECT_COUNTERS.items():
            lines.append(f"def {spec['prefix']}{oname} {ebind} ({var} : Nat) : Nat :=\n  {counters[key]}")
        lines.append(f"def {spec['prefix']}Effects {ebind} : List String :=\n  {eff}")
        lines.append("")
        recs.append({"name": spec["prefix"], "file": spec["file"], "func": spec["func"], "line": line, "ok": ok,
                     "why": why, "python": src[:400], "lean": f"Effects := {eff}; " + "; ".join(
                         f"{EFFECT_COUNTERS[k][0]} := {v}" for k, v in counters.items())})
    lines.append("end Pyribs.GenC")
    text = "\n".join(lines) + "\n"
    old = open(out_path).read() if os.path.exists(out_path) else None
    changed = old != text
    if changed:
        tmp = out_path + f".tmp{os.getpid()}"
        with open(tmp, "w") as f:
            f.write(text)
        os.replace(tmp, out_path)
    return recs, changed


if __name__ == "__main__":
    import sys
    r, ch = translate(sys.argv[1] if len(sys.argv) > 1 else "/repo",
                      sys.argv[2] if len(sys.argv) > 2 else "/verif/lean/PyribsGen/Control.lean")
    for x in r:
        print(("ok  " if x["ok"] else "FAIL") + f" {x['name']:10s} {x['file']}:{x['line']}  "
              f"{x['lean'] if x['ok'] else x['why']}")
    print("rewritten" if ch else "unchanged")
