import PyribsProofs.C01
/-!
# C06 — archive statistics and best_elite always agree with the stored contents

For every configuration (elitist or CMA-MAE) and every history of add / add_single /
clear — including replacements that lower a cell's objective and calls that insert
nothing — the incrementally maintained summaries equal what is recomputed from the
stored contents.
-/
namespace Pyribs.C06
open Pyribs Arch Store

/-- objective stored at index `i` (0 for an unoccupied cell) -/
def objAt (cells : Nat → Option Elite) (i : Nat) : Rat := ((cells i).map (·.obj)).getD 0

/-- sum of the objectives of the current elites, recomputed from scratch -/
def totalObj (cap : Nat) (cells : Nat → Option Elite) : Rat :=
  ((List.range cap).map (objAt cells)).sum

/-! ### sums under point updates -/

theorem sum_point_update (f f' : Nat → Rat) (n j : Nat) (hj : j < n) (h : ∀ i, i ≠ j → f' i = f i) :
    ((List.range n).map f').sum = ((List.range n).map f).sum + (f' j - f j) := by
  induction n with
  | zero => omega
  | succ n ih =>
    rw [List.range_succ, List.map_append, List.map_append, List.sum_append, List.sum_append]
    simp only [List.map_cons, List.map_nil, List.sum_cons, List.sum_nil, add_zero]
    by_cases hlt : j < n
    · rw [ih hlt, h n (by omega)]; ring
    · have hjn : j = n := by omega
      subst hjn
      have : (List.range j).map f' = (List.range j).map f := by
        apply List.map_congr_left
        intro i hi
        exact h i (by have := List.mem_range.mp hi; omega)
      rw [this]; ring

/-- cells after applying the writes `ws` on top of `pre` -/
def applyWs (pre : Nat → Option Elite) (ws : List (Nat × Elite)) : Nat → Option Elite :=
  fun i => (lastWrite ws i).or (pre i)

def upd (pre : Nat → Option Elite) (w : Nat × Elite) : Nat → Option Elite :=
  fun i => if w.1 = i then some w.2 else pre i

theorem applyWs_cons (pre : Nat → Option Elite) (w : Nat × Elite) (rest : List (Nat × Elite)) :
    applyWs pre (w :: rest) = applyWs (upd pre w) rest := by
  funext i
  obtain ⟨j, r⟩ := w
  simp only [applyWs, lastWrite, upd]
  cases lastWrite rest i with
  | some r' => simp
  | none => by_cases hj : j = i <;> simp [hj]

theorem objSumDelta_congr (pre pre' : Nat → Option Elite) (ws : List (Nat × Elite))
    (h : ∀ w ∈ ws, pre' w.1 = pre w.1) : objSumDelta pre' ws = objSumDelta pre ws := by
  unfold objSumDelta
  congr 1
  apply List.map_congr_left
  intro w hw
  rw [h w hw]

/-- **incremental = from scratch** : writing rows with pairwise distinct, in-range
indices changes the total by exactly `compute_objective_sum`'s delta. -/
theorem totalObj_applyWs (cap : Nat) (pre : Nat → Option Elite) (ws : List (Nat × Elite))
    (hnd : (ws.map (·.1)).Nodup) (hr : ∀ w ∈ ws, w.1 < cap) :
    totalObj cap (applyWs pre ws) = totalObj cap pre + objSumDelta pre ws := by
  induction ws generalizing pre with
  | nil =>
    have : applyWs pre [] = pre := by funext i; simp [applyWs, lastWrite]
    simp [this, objSumDelta]
  | cons w rest ih =>
    rw [applyWs_cons]
    rw [List.map_cons, List.nodup_cons] at hnd
    have hnd' : (rest.map (·.1)).Nodup := hnd.2
    have hnot : ∀ x ∈ rest, x.1 ≠ w.1 := by
      intro x hx hxe
      exact hnd.1 (by rw [← hxe]; exact List.mem_map_of_mem (f := (·.1)) hx)
    rw [ih (upd pre w) hnd' (fun x hx => hr x (List.mem_cons_of_mem _ hx))]
    have hd : objSumDelta (upd pre w) rest = objSumDelta pre rest := by
      apply objSumDelta_congr
      intro x hx
      have hne : ¬ w.1 = x.1 := fun h => hnot x hx h.symm
      simp [upd, hne]
    have ht : totalObj cap (upd pre w) = totalObj cap pre + (w.2.obj - objAt pre w.1) := by
      unfold totalObj
      rw [sum_point_update (objAt pre) (objAt (upd pre w)) cap w.1 (hr w List.mem_cons_self)]
      · simp [objAt, upd]
      · intro i hi
        have : ¬ w.1 = i := fun h => hi h.symm
        simp [objAt, upd, this]
    rw [hd, ht]
    simp only [objSumDelta, List.map_cons, List.sum_cons, objAt]
    ring

/-! ### the writes of a batch have pairwise distinct indices -/

theorem filterMap_range_fst {ρ : Type} (g : Nat → Option ρ) (n : Nat) :
    ((List.range n).filterMap (fun j => (g j).map (fun e => (j, e)))).map (·.1) =
      (List.range n).filter (fun j => (g j).isSome) := by
  induction n with
  | zero => simp
  | succ n ih =>
    rw [List.range_succ, List.filterMap_append, List.map_append, List.filter_append, ih]
    congr 1
    cases hg : g n <;> simp [hg]

theorem batchWrites_nodup (cfg : Cfg) (cap : Nat) (pre : Nat → Option Elite) (rows : List (Nat × Cand)) :
    ((batchWrites cfg cap pre rows).map (·.1)).Nodup := by
  unfold batchWrites
  simp only
  rw [filterMap_range_fst]
  exact (List.nodup_range).filter _

theorem batchWrites_lt (cfg : Cfg) (cap : Nat) (pre : Nat → Option Elite) (rows : List (Nat × Cand)) :
    ∀ w ∈ batchWrites cfg cap pre rows, w.1 < cap := by
  intro w hw
  unfold batchWrites at hw
  simp only [List.mem_filterMap, List.mem_range, Option.map_eq_some_iff] at hw
  obtain ⟨j, hj, e, _, rfl⟩ := hw
  exact hj

/-! ### the invariant -/

/-- T06.1: the maintained summaries equal the recomputed ones -/
structure StatsInv (a : Arch) : Prop where
  wf  : C13.WF a.store
  num : a.stats.numElites = a.store.len
  sum : a.stats.objSum = totalObj a.store.cap a.store.cells

theorem totalObj_none (cap : Nat) : totalObj cap (fun _ => none) = 0 := by
  unfold totalObj
  induction cap with
  | zero => simp
  | succ n ih => rw [List.range_succ, List.map_append, List.sum_append, ih]; simp [objAt]

theorem statsInv_new (cfg : Cfg) (cells : Nat) : StatsInv (Arch.new cfg cells) := by
  refine ⟨C13.wf_empty cells, rfl, ?_⟩
  simp only [Arch.new, Stats.zero, Store.empty]
  exact (totalObj_none cells).symm

theorem statsInv_clear (a : Arch) : StatsInv a.clear := by
  refine ⟨C13.wf_clear a.store, rfl, ?_⟩
  simp only [Arch.clear, Stats.zero, Store.clear]
  exact (totalObj_none _).symm

theorem statsUpdate_fields (st : Stats) (len : Nat) (s : Rat) (b : Option (Nat × Elite)) :
    (statsUpdate st len s b).numElites = len ∧ (statsUpdate st len s b).objSum = s := by
  unfold statsUpdate; cases b <;> simp

theorem statsInv_commit (a : Arch) (h : StatsInv a) (ws : List (Nat × Elite))
    (hnd : (ws.map (·.1)).Nodup) (hr : ∀ w ∈ ws, w.1 < a.store.cap) :
    StatsInv (a.commit ws) := by
  have hin : inRange a.store ws = true := (C13.inRange_iff _ _).mpr hr
  have hcells : (a.store.rawAdd ws).cells = applyWs a.store.cells ws := by
    funext i; exact C13.read_your_writes a.store ws hin i
  have hcap : (a.store.rawAdd ws).cap = a.store.cap := (C13.add_other_fields a.store ws).1
  unfold commit
  by_cases he : ws.isEmpty = true
  · have hws : ws = [] := List.isEmpty_iff.mp he
    subst hws
    simp only [List.isEmpty_nil, if_true]
    refine ⟨C13.wf_rawAdd a.store [] h.wf, ?_, ?_⟩
    · simp only [Store.len, C13.order a.store [] hin, newIndices]
      rw [h.num]; simp [Store.len]
    · rw [hcells, hcap, h.sum]
      have : applyWs a.store.cells [] = a.store.cells := by funext i; simp [applyWs, lastWrite]
      rw [this]
  · simp only [he, Bool.false_eq_true, if_false]
    refine ⟨C13.wf_rawAdd a.store ws h.wf, (statsUpdate_fields _ _ _ _).1, ?_⟩
    rw [(statsUpdate_fields _ _ _ _).2, hcells, hcap, h.sum,
      totalObj_applyWs a.store.cap a.store.cells ws hnd hr]

theorem statsInv_addBatch (a : Arch) (h : StatsInv a) (rows : List (Nat × Cand)) :
    StatsInv (a.addBatch rows).1 :=
  statsInv_commit a h _ (batchWrites_nodup _ _ _ _) (batchWrites_lt _ _ _ _)

theorem statsInv_addSingle (a : Arch) (h : StatsInv a) (r : Nat × Cand) (hr : r.1 < a.store.cap) :
    StatsInv (a.addSingle r).1 := by
  unfold addSingle
  apply statsInv_commit a h
  · split <;> simp
  · intro w hw
    split at hw
    · simp at hw
    · simp at hw; subst hw; exact hr

/-- **T06.1 `stats_invariant`** for every reachable state. -/
theorem stats_invariant (cfg : Cfg) (cells : Nat) (ops : List C01.Op) (hw : C01.WellRouted cells ops) :
    StatsInv (C01.run cfg cells ops) ∧ (C01.run cfg cells ops).store.cap = cells := by
  unfold C01.run
  have h0 : StatsInv (Arch.new cfg cells) ∧ (Arch.new cfg cells).store.cap = cells :=
    ⟨statsInv_new cfg cells, rfl⟩
  generalize Arch.new cfg cells = a0 at h0
  induction ops generalizing a0 with
  | nil => simpa using h0
  | cons op ops ih =>
    simp only [List.foldl_cons]
    apply ih (fun o ho => hw o (List.mem_cons_of_mem _ ho))
    have hop := hw op List.mem_cons_self
    cases op with
    | add rows => exact ⟨statsInv_addBatch a0 h0.1 rows, by simp [C01.step, addBatch_cap, h0.2]⟩
    | add1 r =>
      exact ⟨statsInv_addSingle a0 h0.1 r (h0.2 ▸ hop), by simp [C01.step, addSingle_cap, h0.2]⟩
    | clear => exact ⟨statsInv_clear a0, h0.2⟩

/-- the derived statistics, spelled out as the property states them -/
theorem derived_stats (cfg : Cfg) (cells : Nat) (ops : List C01.Op) (hw : C01.WellRouted cells ops) :
    let a := C01.run cfg cells ops
    a.stats.numElites = a.store.len ∧
    a.store.len = ((List.range cells).filter (fun i => a.store.occupied i)).length ∧
    a.qdScore = totalObj cells a.store.cells - (a.store.len : Rat) * a.cfg.offset ∧
    a.coverage = (a.store.len : Rat) / (cells : Rat) ∧
    a.normQd = a.qdScore / (cells : Rat) ∧
    a.objMean = (if a.store.len = 0 then none
                 else some (totalObj cells a.store.cells / (a.store.len : Rat))) := by
  obtain ⟨h, hcap⟩ := stats_invariant cfg cells ops hw
  have hlen := C13.len_eq_count _ h.wf
  simp only
  refine ⟨h.num, by rw [hlen, hcap], ?_, ?_, ?_, ?_⟩
  · simp [qdScore, h.num, h.sum, hcap]
  · simp [coverage, h.num, hcap]
  · simp [normQd, hcap]
  · simp [objMean, h.num, h.sum, hcap]

/-- **T06.3 `clear_resets`** -/
theorem clear_resets (a : Arch) :
    a.clear.stats = Stats.zero ∧ a.clear.store.len = 0 ∧ a.clear.qdScore = 0 ∧
    a.clear.objMean = none := by
  simp [Arch.clear, Stats.zero, Store.clear, Store.len, qdScore, objMean]

/-! ### T06.2 the running maximum and best_elite -/

theorem bestWrite_spec {ws : List (Nat × Elite)} {b : Nat × Elite} (h : bestWrite ws = some b) :
    b ∈ ws ∧ ∀ w ∈ ws, w.2.obj ≤ b.2.obj := by
  induction ws generalizing b with
  | nil => simp [bestWrite] at h
  | cons w ws ih =>
    simp only [bestWrite] at h
    cases hm : bestWrite ws with
    | none =>
      rw [hm] at h; simp at h; subst h
      have : ws = [] := by
        cases ws with
        | nil => rfl
        | cons x xs =>
          simp only [bestWrite] at hm
          cases hx : bestWrite xs with
          | none => rw [hx] at hm; simp at hm
          | some m => rw [hx] at hm; simp at hm; split at hm <;> simp at hm
      subst this; simp
    | some m =>
      rw [hm] at h
      obtain ⟨hmem, hub⟩ := ih hm
      by_cases h2 : w.2.obj < m.2.obj
      · simp [h2] at h; subst h
        refine ⟨List.mem_cons_of_mem _ hmem, ?_⟩
        intro x hx; rcases List.mem_cons.mp hx with rfl | hx
        · exact le_of_lt h2
        · exact hub x hx
      · simp [h2] at h; subst h
        refine ⟨List.mem_cons_self, ?_⟩
        intro x hx; rcases List.mem_cons.mp hx with rfl | hx
        · exact le_refl _
        · exact le_trans (hub x hx) (not_lt.mp h2)

theorem bestWrite_isSome {ws : List (Nat × Elite)} (h : ws ≠ []) : ∃ b, bestWrite ws = some b := by
  cases ws with
  | nil => exact absurd rfl h
  | cons w ws =>
    simp only [bestWrite]
    cases bestWrite ws with
    | none => exact ⟨w, rfl⟩
    | some m => by_cases h2 : w.2.obj < m.2.obj <;> simp [h2]

/-- `L` = every row written (inserted) since the last clear. `obj_max` is the maximum
objective over `L`, and `best_elite` is a member of `L` attaining it. -/
structure MaxInv (st : Stats) (L : List Elite) : Prop where
  none_iff : st.objMax = none ↔ L = []
  best_none : st.objMax = none → st.best = none
  spec : ∀ m, st.objMax = some m →
    (∀ e ∈ L, e.obj ≤ m) ∧ ∃ b, st.best = some b ∧ b.2 ∈ L ∧ b.2.obj = m

theorem maxInv_update (st : Stats) (L : List Elite) (h : MaxInv st L) (ws : List (Nat × Elite))
    (hne : ws ≠ []) (len : Nat) (s : Rat) :
    MaxInv (statsUpdate st len s (bestWrite ws)) (L ++ ws.map (·.2)) := by
  obtain ⟨b, hb⟩ := bestWrite_isSome hne
  obtain ⟨hbm, hbu⟩ := bestWrite_spec hb
  have hbL : b.2 ∈ L ++ ws.map (·.2) := List.mem_append_right _ (List.mem_map_of_mem hbm)
  rw [hb]
  unfold statsUpdate
  cases hm : st.objMax with
  | none =>
    have hL : L = [] := h.none_iff.mp hm
    subst hL
    simp only [if_true]
    refine ⟨by simp [hne], by simp, ?_⟩
    intro m hm'
    simp only [Option.some.injEq] at hm'
    subst hm'
    refine ⟨?_, b, rfl, hbL, rfl⟩
    intro e he
    simp only [List.nil_append, List.mem_map] at he
    obtain ⟨w, hw, rfl⟩ := he
    exact hbu w hw
  | some m0 =>
    obtain ⟨hub0, b0, hb0, hb0L, hb0m⟩ := h.spec m0 hm
    by_cases hlt : m0 < b.2.obj
    · simp only [hlt, decide_true, if_true]
      refine ⟨by simp [hne], by simp, ?_⟩
      intro m hm'
      simp only [Option.some.injEq] at hm'
      subst hm'
      refine ⟨?_, b, rfl, hbL, rfl⟩
      intro e he
      rcases List.mem_append.mp he with he | he
      · exact le_trans (hub0 e he) (le_of_lt hlt)
      · obtain ⟨w, hw, rfl⟩ := List.mem_map.mp he
        exact hbu w hw
    · simp only [hlt, decide_false, Bool.false_eq_true, if_false]
      refine ⟨by simp [hne], by simp, ?_⟩
      intro m hm'
      simp only [Option.some.injEq] at hm'
      subst hm'
      refine ⟨?_, b0, hb0, List.mem_append_left _ hb0L, hb0m⟩
      intro e he
      rcases List.mem_append.mp he with he | he
      · exact hub0 e he
      · obtain ⟨w, hw, rfl⟩ := List.mem_map.mp he
        exact le_trans (hbu w hw) (not_lt.mp hlt)

/-- ghost history: the archive together with the list of rows written since the last clear -/
def writesOf (a : Arch) : C01.Op → List (Nat × Elite)
  | .add rows => batchWrites a.cfg a.store.cap a.store.cells rows
  | .add1 r => if status a.cfg (a.store.cells r.1) r.2 = 0 then []
               else [(r.1, r.2.withThr (newThrSingle a.cfg (a.store.cells r.1) r.2))]
  | .clear => []

def stepG (s : Arch × List Elite) (op : C01.Op) : Arch × List Elite :=
  (C01.step s.1 op,
   match op with
   | .clear => []
   | _ => s.2 ++ (writesOf s.1 op).map (·.2))

theorem step_eq_commit (a : Arch) (op : C01.Op) (h : op ≠ .clear) :
    C01.step a op = a.commit (writesOf a op) := by
  cases op with
  | add rows => rfl
  | add1 r => rfl
  | clear => exact absurd rfl h

theorem commit_stats (a : Arch) (ws : List (Nat × Elite)) :
    (a.commit ws).stats =
      if ws = [] then a.stats
      else statsUpdate a.stats (a.store.rawAdd ws).len
             (a.stats.objSum + objSumDelta a.store.cells ws) (bestWrite ws) := by
  unfold commit
  cases ws <;> simp

/-- **T06.2 `obj_max_spec`** : after any history, `obj_max` is the highest objective
inserted since the last clear and `best_elite` is one of the inserted rows, with that
objective (the ghost list records every inserted row, complete). -/
theorem obj_max_spec (cfg : Cfg) (cells : Nat) (ops : List C01.Op) :
    let s := ops.foldl stepG (Arch.new cfg cells, [])
    s.1 = C01.run cfg cells ops ∧ MaxInv s.1.stats s.2 := by
  simp only [C01.run]
  have h0 : MaxInv (Arch.new cfg cells).stats [] :=
    ⟨by simp [Arch.new, Stats.zero], by simp [Arch.new, Stats.zero], by simp [Arch.new, Stats.zero]⟩
  generalize Arch.new cfg cells = a0 at h0
  generalize hL : ([] : List Elite) = L0 at h0
  clear hL
  induction ops generalizing a0 L0 with
  | nil => exact ⟨rfl, h0⟩
  | cons op ops ih =>
    simp only [List.foldl_cons]
    have hs : (stepG (a0, L0) op).1 = C01.step a0 op := rfl
    have := ih (C01.step a0 op) (stepG (a0, L0) op).2 (by
      by_cases hc : op = .clear
      · subst hc
        simp only [stepG, C01.step, Arch.clear]
        exact ⟨by simp [Stats.zero], by simp [Stats.zero], by simp [Stats.zero]⟩
      · rw [step_eq_commit a0 op hc, commit_stats]
        have : (stepG (a0, L0) op).2 = L0 ++ (writesOf a0 op).map (·.2) := by
          cases op with
          | add rows => rfl
          | add1 r => rfl
          | clear => exact absurd rfl hc
        rw [this]
        by_cases hw : writesOf a0 op = []
        · simp [hw]; exact h0
        · simp only [hw, if_false]
          exact maxInv_update a0.stats L0 h0 _ hw _ _)
    exact this

/-! ### non-vacuity -/

/-- CMA-MAE archive in which a replacement lowers a cell's objective (8 → 5): the sum
follows, the running maximum stays 8 and best_elite is the inserted row with token 2 -/
theorem nonvacuous :
    let a := C01.run ⟨1/2, some 0, -1⟩ 2
      [.add [(0, ⟨1, 4, []⟩), (0, ⟨2, 8, []⟩), (1, ⟨4, 2, []⟩)], .add1 (0, ⟨6, 5, []⟩), .add []]
    a.stats.numElites = 2 ∧ a.stats.objSum = 7 ∧ a.stats.objMax = some 8 ∧
    a.stats.best.map (fun b => b.2.tok) = some 2 ∧ a.qdScore = 9 ∧ a.coverage = 1 ∧
    totalObj 2 a.store.cells = 7 := by
  decide +kernel

end Pyribs.C06
