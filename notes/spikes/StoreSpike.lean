/-! spike: ArrayStore bookkeeping model + invariant (core Lean only) -/
def updf {α} (f : Nat → α) (k : Nat) (v : α) : Nat → α := fun i => if i = k then v else f i

structure Store (ρ : Type) where
  cap : Nat
  cell : Nat → Option ρ
  olist : List Nat
  nAdd : Nat
  nClear : Nat

variable {ρ : Type}

/-- `arr[indices] = rows` with repeated indices: later rows overwrite earlier ones -/
def writeAll (cell : Nat → Option ρ) : List (Nat × ρ) → Nat → Option ρ
  | [] => cell
  | (i, r) :: rest => writeAll (updf cell i (some r)) rest

/-- ascending, duplicate-free list of indices named by the add that were unoccupied -/
def newIdx (s : Store ρ) (idx : List Nat) : List Nat :=
  (List.range s.cap).filter fun i => idx.contains i && (s.cell i).isNone

def Store.add (s : Store ρ) (ws : List (Nat × ρ)) : Store ρ :=
  { s with cell := writeAll s.cell ws, olist := s.olist ++ newIdx s (ws.map (·.1)), nAdd := s.nAdd + 1 }

def Store.clear (s : Store ρ) : Store ρ :=
  { s with cell := fun _ => none, olist := [], nClear := s.nClear + 1 }

def Store.resize (s : Store ρ) (c : Nat) : Store ρ := { s with cap := c }

structure SInv (s : Store ρ) : Prop where
  nodup : s.olist.Nodup
  mem : ∀ i, i ∈ s.olist ↔ (s.cell i).isSome
  bound : ∀ i, (s.cell i).isSome → i < s.cap

theorem writeAll_isSome (cell : Nat → Option ρ) (ws : List (Nat × ρ)) (i : Nat) :
    (writeAll cell ws i).isSome ↔ (cell i).isSome ∨ i ∈ ws.map (·.1) := by
  induction ws generalizing cell with
  | nil => simp [writeAll]
  | cons w ws ih =>
    obtain ⟨j, r⟩ := w
    simp only [writeAll, ih, List.map_cons, List.mem_cons, updf]
    by_cases h : i = j <;> simp [h]

/-- read-your-writes: an index not named keeps its row; a named index holds the row of its LAST occurrence -/
theorem writeAll_not_mem (cell : Nat → Option ρ) (ws : List (Nat × ρ)) (i : Nat)
    (h : i ∉ ws.map (·.1)) : writeAll cell ws i = cell i := by
  induction ws generalizing cell with
  | nil => rfl
  | cons w ws ih =>
    obtain ⟨j, r⟩ := w
    simp only [List.map_cons, List.mem_cons, not_or] at h
    simp [writeAll, ih _ h.2, updf, h.1]

theorem writeAll_last (cell : Nat → Option ρ) (pre post : List (Nat × ρ)) (i : Nat) (r : ρ)
    (h : i ∉ post.map (·.1)) : writeAll cell (pre ++ (i, r) :: post) i = some r := by
  induction pre generalizing cell with
  | nil => simp [writeAll, writeAll_not_mem _ _ _ h, updf]
  | cons w pre ih => obtain ⟨j, r'⟩ := w; simp [writeAll, ih]

theorem add_inv (s : Store ρ) (ws : List (Nat × ρ)) (hi : SInv s)
    (hb : ∀ w ∈ ws, w.1 < s.cap) : SInv (s.add ws) := by
  refine ⟨?_, ?_, ?_⟩
  · -- nodup: old list nodup, new part nodup (filter of range), disjoint (new ones were unoccupied)
    simp only [Store.add]
    refine List.nodup_append.mpr ⟨hi.nodup, (List.nodup_range).filter _, ?_⟩
    intro a ha b hb' hab
    subst hab
    simp only [newIdx, List.mem_filter, Bool.and_eq_true] at hb'
    have := (hi.mem a).mp ha
    simp [Option.isSome_iff_ne_none, Option.isNone_iff_eq_none] at this hb'
    exact this hb'.2.2
  · intro i
    simp only [Store.add, List.mem_append, writeAll_isSome, newIdx, List.mem_filter, List.mem_range,
      Bool.and_eq_true, List.contains_iff_mem (a := i)]
    constructor
    · rintro (h | ⟨_, h, _⟩)
      · exact Or.inl ((hi.mem i).mp h)
      · exact Or.inr h
    · rintro (h | h)
      · exact Or.inl ((hi.mem i).mpr h)
      · by_cases ho : (s.cell i).isSome
        · exact Or.inl ((hi.mem i).mpr ho)
        · right
          obtain ⟨w, hw, rfl⟩ := List.mem_map.mp h
          exact ⟨hb w hw, h, by simpa using ho⟩
  · intro i h
    simp only [Store.add, writeAll_isSome] at h
    rcases h with h | h
    · exact hi.bound i h
    · obtain ⟨w, hw, rfl⟩ := List.mem_map.mp h; exact hb w hw

theorem clear_inv (s : Store ρ) : SInv s.clear := ⟨by simp [Store.clear], by simp [Store.clear], by simp [Store.clear]⟩
theorem resize_inv (s : Store ρ) (c : Nat) (hi : SInv s) (hc : s.cap ≤ c) : SInv (s.resize c) :=
  ⟨hi.nodup, hi.mem, fun i h => Nat.lt_of_lt_of_le (hi.bound i h) hc⟩

/-- order law: an add only appends; earlier-filled indices stay in front -/
theorem add_prefix (s : Store ρ) (ws) : s.olist <+: (s.add ws).olist := by simp [Store.add]
#print axioms add_inv
