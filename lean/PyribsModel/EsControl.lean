import PyribsModel.Util
/-!
# EsControl — the control block of the evolution-strategy emitters

Model of `EvolutionStrategyEmitter.tell` (`ribs/emitters/_evolution_strategy_emitter.py`)
and of the identical block in `GradientArborescenceEmitter.tell`
(`ribs/emitters/_gradient_arborescence_emitter.py`): counting the iteration,
choosing the number of parents, handing the ranker's output to the optimizer,
deciding whether to restart, and the restart itself.

What is *external* to the emitter is an input of the model, not part of it:

* the ranker (`t.rank`: told rows → statuses → (indices, ranking values)),
* the optimizer's convergence test (`t.stop`: the ranking values in ranked
  order → bool; this is `EvolutionStrategyBase.check_stop`),
* the archive's contents at the time of the call (`t.arch`, one token per elite)
  and the random draw `archive.sample_elites(1)` makes (`t.rnd`, any natural
  number; the archive reduces it modulo its size).

Solutions and elites are **tokens** (`Nat`); ranking values are an arbitrary
type `ν` (the model only moves them around).  What the emitter *does* to its
collaborators is returned as data: a list of `Act`ions, in call order.

Code shape (what mirrors what):
* `parseSel`, `parseRule`, `mkCfg` ↔ the checks in `__init__` (`selection_rule not in …`,
                     `_check_restart(0)` evaluated once for validation);
* `newSols`        ↔ `add_info["status"].astype(bool).sum()`;
* `numParents`     ↔ `new_sols if selection_rule == "filter" else batch_size // 2`;
* `checkRestart`   ↔ `_check_restart` (called with `new_sols`, *after* `_itrs += 1`);
* `gather`         ↔ `ranking_values[indices]` (NumPy raises IndexError when out of range);
* `sampleElite`    ↔ `archive.sample_elites(1)["solution"][0]` (IndexError on an empty archive);
* `stepActs`, `pointAfterUpdate` ↔ the gradient step of the arborescence emitter
                     (`if num_parents > 0: … self._grad_opt.step(new_mean - theta)`), which
                     sits between `opt.tell` and the restart check; only its *position*
                     matters here (its value is property C19);
* `restartActs`    ↔ the body of the `if` at the end of `tell`;
* `tell`           ↔ `tell`;  `ask` ↔ `ask`;  `tellDqd` ↔ `tell_dqd` (only the fact that
                     gradients are now present matters here).
Spec shape: `parentsSpec`, `ruleDue`, `restartDue`, `decisions`.
-/
namespace Pyribs.EsControl

inductive Kind | es | gae
deriving DecidableEq, Repr

inductive Sel | mu | filter
deriving DecidableEq, Repr

/-- `restart_rule`: "basic", "no_improvement" or an integer `N` -/
inductive Rule | basic | noImprovement | every (n : Nat)
deriving DecidableEq, Repr

/-- `value` = ValueError, `runtime` = RuntimeError, `index` = IndexError,
`zeroDiv` = ZeroDivisionError -/
inductive Err | value | runtime | index | zeroDiv
deriving DecidableEq, Repr

structure Cfg where
  kind  : Kind
  sel   : Sel
  rule  : Rule
  batch : Nat
deriving DecidableEq, Repr

/-! ## construction (`__init__`) -/

/-- the `restart_rule` argument as the caller wrote it -/
inductive RuleArg | name (s : String) | int (n : Nat)
deriving DecidableEq, Repr

/-- `if selection_rule not in ["mu", "filter"]: raise ValueError` -/
def parseSel (s : String) : Except Err Sel :=
  if s = "mu" then .ok .mu else if s = "filter" then .ok .filter else .error .value

/-- `_ = self._check_restart(0)` in `__init__`: an unknown name raises ValueError;
an integer is accepted after evaluating `0 % N`, which raises ZeroDivisionError
for `N = 0`.  (Negative integers are outside the model.) -/
def parseRule : RuleArg → Except Err Rule
  | .int 0 => .error .zeroDiv
  | .int n => .ok (.every n)
  | .name s =>
    if s = "no_improvement" then .ok .noImprovement
    else if s = "basic" then .ok .basic
    else .error .value

def mkCfg (kind : Kind) (sel : String) (rule : RuleArg) (batch : Nat) : Except Err Cfg :=
  match parseSel sel with
  | .error e => .error e
  | .ok sl =>
    match parseRule rule with
    | .error e => .error e
    | .ok r => .ok ⟨kind, sl, r, batch⟩

/-! ## state -/

/-- where the emitter's search currently sits (the mean of the optimizer for
EvolutionStrategyEmitter, the solution point `ask_dqd()` of the gradient
optimizer for GradientArborescenceEmitter): still at `x0`, exactly on the
solution of an elite, or somewhere else (`moved`: after an update) -/
inductive Point | initial | elite (tok : Nat) | moved
deriving DecidableEq, Repr

/-- `itrs`, `restarts`: the public counters.  `hasJac`: `_jacobian_batch is not None`
(GradientArborescenceEmitter only).  `lastAsk`: ghost variable — the rows the
last `ask` returned (the code does not store them; the protocol, property C04,
makes the caller tell exactly these rows).  `point`: where the search sits. -/
structure St where
  itrs     : Nat
  restarts : Nat
  hasJac   : Bool
  lastAsk  : Option (List Nat)
  point    : Point
deriving DecidableEq, Repr

def init : St := ⟨0, 0, false, none, .initial⟩

/-- where an optimizer is re-centred: on the solution of an elite, or on the
zero vector (the coefficient distribution of the arborescence emitter) -/
inductive Center | elite (tok : Nat) | zero
deriving DecidableEq, Repr

/-- calls the emitter makes on its collaborators / writes to its counters -/
inductive Act (ν : Type)
  /-- `ranker.rank(self, archive, data, add_info)` with these rows and statuses -/
  | rank (sols : List Nat) (statuses : List Nat)
  /-- `opt.tell(indices, ranking_values, num_parents)` -/
  | optTell (indices : List Nat) (values : List ν) (numParents : Nat)
  /-- `grad_opt.step(new_mean - theta)` (arborescence emitter, only with parents) -/
  | gradStep
  /-- `opt.check_stop(ranking_values[indices])` -/
  | checkStop (sorted : List ν)
  /-- `archive.sample_elites(1)` -/
  | sampleElite
  /-- `grad_opt.reset(·)` (arborescence emitter) -/
  | gradReset (c : Center)
  /-- `opt.reset(·)` -/
  | optReset (c : Center)
  /-- `ranker.reset(self, archive)` -/
  | rankerReset
  /-- `self._restarts += 1` -/
  | incRestarts
deriving DecidableEq, Repr

/-- the calls that make up a restart -/
def Act.isRestart {ν : Type} : Act ν → Bool
  | .sampleElite | .gradReset _ | .optReset _ | .rankerReset | .incRestarts => true
  | _ => false

/-- everything `tell` receives or consults -/
structure TellIn (ν : Type) where
  /-- tokens of the solution rows handed to `tell` -/
  sols     : List Nat
  /-- `add_info["status"]` -/
  statuses : List Nat
  /-- the ranker, as it answers this call -/
  rank     : List Nat → List Nat → List Nat × List ν
  /-- `opt.check_stop`, as it answers this call -/
  stop     : List ν → Bool
  /-- tokens of the elites in the archive at the time of the call -/
  arch     : List Nat
  /-- the random number `sample_elites` draws (reduced modulo the archive size) -/
  rnd      : Nat

structure Out (ν : Type) where
  numParents : Nat
  restart    : Bool
  acts       : List (Act ν)
deriving DecidableEq, Repr

/-- `done`: a call that is not a `tell` succeeded; `ok`: `tell` returned;
`err e acts`: the call raised `e` after having performed `acts`. -/
inductive Res (ν : Type)
  | done
  | ok (o : Out ν)
  | err (e : Err) (acts : List (Act ν))
deriving DecidableEq, Repr

/-! ## code-shaped pieces -/

/-- `add_info["status"].astype(bool).sum()` -/
def newSols (statuses : List Nat) : Nat := (statuses.filter (· ≠ 0)).length

/-- `new_sols if self._selection_rule == "filter" else self._batch_size // 2` -/
def numParents (cfg : Cfg) (statuses : List Nat) : Nat :=
  match cfg.sel with
  | .filter => newSols statuses
  | .mu => cfg.batch / 2

/-- `_check_restart(new_sols)`; `itrs` is the counter *after* the increment -/
def checkRestart (rule : Rule) (itrs newSols : Nat) : Bool :=
  match rule with
  | .every n => itrs % n == 0
  | .noImprovement => newSols == 0
  | .basic => false

/-- `ranking_values[indices]` (`none` = IndexError) -/
def gather {ν : Type} (values : List ν) : List Nat → Option (List ν)
  | [] => some []
  | i :: is =>
    match values[i]?, gather values is with
    | some v, some vs => some (v :: vs)
    | _, _ => none

/-- `archive.sample_elites(1)["solution"][0]` (`none` = IndexError: the archive is empty) -/
def sampleElite (arch : List Nat) (rnd : Nat) : Option Nat :=
  if h : 0 < arch.length then some (arch[rnd % arch.length]'(Nat.mod_lt _ h)) else none

/-- `if num_parents > 0: … self._grad_opt.step(…)` — arborescence emitter only -/
def stepActs {ν : Type} (cfg : Cfg) (np : Nat) : List (Act ν) :=
  if cfg.kind = .gae ∧ 0 < np then [.gradStep] else []

/-- where the search sits after the update and before the restart check: the
optimizer of EvolutionStrategyEmitter adapts its mean on every `opt.tell`; the
solution point of the arborescence emitter moves only when there are parents -/
def pointAfterUpdate (cfg : Cfg) (np : Nat) (p : Point) : Point :=
  match cfg.kind with
  | .es => .moved
  | .gae => if 0 < np then .moved else p

/-- the calls that hand the ranking over (and, for the arborescence emitter, the
gradient step), in call order -/
def handoffActs {ν : Type} (cfg : Cfg) (t : TellIn ν) (np : Nat) (sorted : List ν) : List (Act ν) :=
  [.rank t.sols t.statuses, .optTell (t.rank t.sols t.statuses).1 (t.rank t.sols t.statuses).2 np]
    ++ stepActs cfg np ++ [.checkStop sorted]

/-- the body of `if opt.check_stop(…) or self._check_restart(new_sols):` -/
def restartActs {ν : Type} (kind : Kind) (e : Nat) : List (Act ν) :=
  match kind with
  | .es  => [.sampleElite, .optReset (.elite e), .rankerReset, .incRestarts]
  | .gae => [.sampleElite, .gradReset (.elite e), .optReset .zero, .rankerReset, .incRestarts]

/-- `tell` -/
def tell {ν : Type} (cfg : Cfg) (s : St) (t : TellIn ν) : St × Res ν :=
  -- validate_batch: the status vector must have one entry per solution row
  if t.statuses.length ≠ t.sols.length then (s, .err .value [])
  -- arborescence emitter: gradients must have been supplied
  else if cfg.kind = .gae ∧ s.hasJac = false then (s, .err .runtime [])
  else
    let ns := newSols t.statuses
    let iv := t.rank t.sols t.statuses
    let np := numParents cfg t.statuses
    match gather iv.2 iv.1 with
    | none =>
      -- IndexError from `ranking_values[indices]` / `data["solution"][indices]`: raised after
      -- `opt.tell` and before any gradient step
      ({ s with itrs := s.itrs + 1,
                point := match cfg.kind with | .es => .moved | .gae => s.point },
        .err .index [.rank t.sols t.statuses, .optTell iv.1 iv.2 np])
    | some sorted =>
      let s1 := { s with itrs := s.itrs + 1, point := pointAfterUpdate cfg np s.point }
      let a1 := handoffActs cfg t np sorted
      if t.stop sorted || checkRestart cfg.rule s1.itrs ns then
        match sampleElite t.arch t.rnd with
        | none => (s1, .err .index (a1 ++ [.sampleElite]))
        | some e =>
          ({ s1 with restarts := s1.restarts + 1, point := .elite e },
            .ok ⟨np, true, a1 ++ restartActs cfg.kind e⟩)
      else (s1, .ok ⟨np, false, a1⟩)

/-- `ask` (`rows` is what the optimizer's `ask` produced, mapped to solution space) -/
def ask {ν : Type} (cfg : Cfg) (s : St) (rows : List Nat) : St × Res ν :=
  if cfg.kind = .gae ∧ s.hasJac = false then (s, .err .runtime [])
  else ({ s with lastAsk := some rows }, .done)

/-- `tell_dqd` (well-formed arguments; malformed ones belong to C11/C19) -/
def tellDqd (s : St) : St := { s with hasJac := true }

/-! ## histories -/

inductive Op (ν : Type)
  | tellDqd
  | ask (rows : List Nat)
  | tell (t : TellIn ν)

def step {ν : Type} (cfg : Cfg) (s : St) : Op ν → St × Res ν
  | .tellDqd => (tellDqd s, .done)
  | .ask rows => ask cfg s rows
  | .tell t => tell cfg s t

def runOps {ν : Type} (cfg : Cfg) : St → List (Op ν) → St × List (Res ν)
  | s, [] => (s, [])
  | s, op :: ops =>
    let r := step cfg s op
    let rest := runOps cfg r.1 ops
    (rest.1, r.2 :: rest.2)

/-- the `tell`s of a history, in order -/
def tellsOf {ν : Type} : List (Op ν) → List (TellIn ν)
  | [] => []
  | .tell t :: ops => t :: tellsOf ops
  | _ :: ops => tellsOf ops

/-- the call counted an iteration (`_itrs += 1` was reached) -/
def Res.advanced {ν : Type} : Res ν → Bool
  | .ok _ => true
  | .err .index _ => true
  | _ => false

/-- the call restarted the emitter -/
def Res.restarted {ν : Type} : Res ν → Bool
  | .ok o => o.restart
  | _ => false

def Res.isErr {ν : Type} : Res ν → Bool
  | .err _ _ => true
  | _ => false

/-! ## spec-shaped definitions (they read like the property) -/

/-- "the number of those solutions that were inserted into the archive ('filter')
or half the batch ('mu')" -/
def parentsSpec (cfg : Cfg) (statuses : List Nat) : Nat :=
  match cfg.sel with
  | .filter => statuses.countP (· ≠ 0)
  | .mu => cfg.batch / 2

/-- what the optimizer's convergence test says about this call (it is asked
about the ranking values in ranked order; `false` when that order does not exist) -/
def TellIn.stopped {ν : Type} (t : TellIn ν) : Bool :=
  let iv := t.rank t.sols t.statuses
  match gather iv.2 iv.1 with
  | some sorted => t.stop sorted
  | none => false

/-- "the configured rule fires": no solution inserted for 'no_improvement', every
`N`-th tell for an integer `N`, never for 'basic'.  `k` = number of this tell
(first tell: 1). -/
def ruleDue (rule : Rule) (k : Nat) (statuses : List Nat) : Prop :=
  match rule with
  | .basic => False
  | .noImprovement => ∀ x ∈ statuses, x = 0
  | .every n => n ∣ k

instance (rule : Rule) (k : Nat) (statuses : List Nat) : Decidable (ruleDue rule k statuses) := by
  unfold ruleDue; cases rule <;> infer_instance

/-- "exactly when the optimizer reports convergence or the configured rule fires" -/
def restartDue {ν : Type} (rule : Rule) (k : Nat) (t : TellIn ν) : Prop :=
  t.stopped = true ∨ ruleDue rule k t.statuses

instance {ν : Type} (rule : Rule) (k : Nat) (t : TellIn ν) : Decidable (restartDue rule k t) := by
  unfold restartDue; infer_instance

/-- restart decisions along a history of tells, from the position in the history
alone: the first tell of the list is tell number `k + 1` -/
def decisions {ν : Type} (rule : Rule) : Nat → List (TellIn ν) → List Bool
  | _, [] => []
  | k, t :: ts => decide (restartDue rule (k + 1) t) :: decisions rule (k + 1) ts

end Pyribs.EsControl
