"""C09 translator: random sites of `ribs/` -> `lean/PyribsGen/RngSites.lean`.

Walks the AST of every module under `<repo>/ribs` and emits one `Site` record per
*random site*: generator constructions, `.spawn`, draws on generator objects,
module-level draws (`np.random.*`, `random.*`), entropy reads and calls into
libraries that draw internally (scikit-learn k-means, `scipy.stats.qmc` engines,
pycma), each with the **provenance** of its randomness, computed by an
intra-procedural, flow-insensitive def-use pass:

    fromSeedParam path   derived from a seed-like parameter of the enclosing function
                         (`seed`, `*_seed`, `rng`, `random_state`, ...), possibly through
                         `SeedSequence(seed).spawn(n)[i]`
    ownGenerator attr    a generator attribute (`self._rng`) every assignment of which,
                         in the class or its bases, has seed provenance
    global               NumPy's / Python's process-wide generator
    fresh                no seed argument / literal None / library default entropy
    constant             literal seed, or a deterministic engine (`Sobol(scramble=False)`)
    entropyOnly path     derived from a seed parameter, but only through `.entropy` (or only
                         `.spawn_key`) of a SeedSequence: deterministic, yet SeedSequences spawned
                         from one parent collapse to the same stream -- NOT seeded.
                         (`s.generate_state(n)` and `SeedSequence(s.entropy, spawn_key=s.spawn_key)`
                         keep the whole seed and stay `fromSeedParam`.)
    fresh                also: a call of one of the package's own classes / functions that take a `seed`
                         parameter (IsoLineOperator, GaussianOperator, the rankers, the strategies, the
                         archives, ...) which passes no seed at all, made inside a component that is
                         itself seeded -- the one inter-procedural fact that is visible without following
                         the hand-off
    callerOwned path     (kind `escape`) seed material -- a seed, a generator, a function drawing from
                         one -- is stored into a container that may be the caller's own object (a
                         parameter that is not copied first, or an alias of one): components built
                         from the same container then share or overwrite it -- NOT seeded.
    unclassified         anything in numpy.random, random, scipy.stats.qmc, sklearn, cma,
                         secrets, os.urandom, uuid that the API table below does not know

The pass keys on **API names** (resolved through the module's imports), never on
variable names or code shape, so renames, moved code and new *seeded* generators
produce a table that still satisfies `all_sites_seeded`.

Also emitted: one `Spawn` record per `.spawn(n)` call with every call that is
handed one of its children (for theorem `spawn_distinct`).

The API table (trusted, see DESIGN 2.11; the double runs of harness/props/c09.py are
what would expose an error in it):
  * numpy.random constructors take their seed as first argument / `seed=`;
  * sklearn `k_means`/`KMeans`/... draw from `random_state` (default: the *global*
    RandomState); the argument may arrive through `**kwargs` filled by
    `kwargs.setdefault("random_state", seed)` / `kwargs["random_state"] = seed`;
  * scipy.stats.qmc engines draw from `seed=` / `rng=` (default: fresh entropy);
    `Sobol`/`Halton` with literal `scramble=False` are deterministic;
  * `cma.CMAEvolutionStrategy(x0, sigma0, opts)` draws through `opts["randn"]`
    (pycma 4.x: the global generator is seeded and used only when `randn is
    np.random.randn`); it is seeded iff `opts["randn"]` is a function drawing from a
    seeded generator; `opts["seed"]` (pyribs sets NaN = "never seed the global
    generator") is recorded in the site's API string.
"""
import ast
import os
import re
import sys

# --------------------------------------------------------------------------
# API table

SEED_PARAM = re.compile(r"^(seed|rng|random_state|seed_sequence|seedsequence|generator|bit_generator|bitgen)$"
                        r"|_(seed|rng|random_state)$|^(seed|rng)_")

NP_CONSTRUCTORS = {  # name -> (positional index, keyword) of the seed argument
    "default_rng": (0, "seed"),
    "SeedSequence": (0, "entropy"),
    "Generator": (0, "bit_generator"),
    "RandomState": (0, "seed"),
    "PCG64": (0, "seed"),
    "PCG64DXSM": (0, "seed"),
    "MT19937": (0, "seed"),
    "Philox": (0, "seed"),
    "SFC64": (0, "seed"),
}
_DISTS = """beta binomial chisquare dirichlet exponential f gamma geometric gumbel hypergeometric laplace
logistic lognormal logseries multinomial multivariate_normal multivariate_hypergeometric negative_binomial
noncentral_chisquare noncentral_f normal pareto poisson power rayleigh standard_cauchy standard_exponential
standard_gamma standard_normal standard_t triangular uniform vonmises wald weibull zipf""".split()
NP_GLOBAL_FUNCS = set(_DISTS) | set("""seed get_state set_state rand randn randint random_integers random_sample
random ranf sample choice bytes shuffle permutation get_bit_generator set_bit_generator""".split())
PY_GLOBAL_FUNCS = set("""seed getstate setstate random uniform triangular randint randrange choice choices shuffle
sample betavariate expovariate gammavariate gauss lognormvariate normalvariate vonmisesvariate paretovariate
weibullvariate getrandbits randbytes binomialvariate""".split())
# methods of generator objects (numpy Generator / RandomState / random.Random)
GEN_METHODS = set(_DISTS) | set("""random integers choice bytes shuffle permutation permuted rand randn randint
random_integers random_sample ranf sample tomaxint seed gauss randrange choices getrandbits randbytes
betavariate expovariate gammavariate lognormvariate normalvariate vonmisesvariate paretovariate weibullvariate
binomialvariate""".split())
# of those, the names that practically only generators have (flagged even on an unknown receiver)
DISTINCTIVE = (set(_DISTS) - {"f", "power", "gamma", "beta"}) | set(
    """integers permuted rand randn randint random_integers random_sample ranf tomaxint gauss randrange
    getrandbits randbytes normalvariate""".split())
DERIVING_METHODS = {"generate_state", "jumped"}  # seed material derived from a generator object (keeps all of it)
NUMBA_COMPILERS = {"jit", "njit", "vectorize", "guvectorize", "cfunc", "stencil"}
SEEDSEQ_PARTS = {"entropy", "spawn_key"}  # attributes holding only a part of a SeedSequence

QMC_ENGINES = {  # name -> literal keyword that makes the engine deterministic
    "Sobol": ("scramble", False),
    "Halton": ("scramble", False),
    "LatinHypercube": None,
    "PoissonDisk": None,
    "MultinomialQMC": None,
    "MultivariateNormalQMC": None,
}
QMC_SEED_KW = ("seed", "rng", "engine")
SKLEARN_RANDOM = {"k_means", "KMeans", "MiniBatchKMeans", "BisectingKMeans", "kmeans_plusplus",
                  "SpectralClustering", "GaussianMixture", "BayesianGaussianMixture", "PCA", "TruncatedSVD",
                  "train_test_split", "shuffle", "resample", "check_random_state"}
CMA_RANDOM = {"CMAEvolutionStrategy": (2, "inopts"), "CMA": (2, "inopts"), "fmin": (3, "options"),
              "fmin2": (3, "options"), "fmin_con": (None, "options"), "fmin_con2": (None, "options")}
NONRANDOM = {  # calls into the random-capable libraries that are known not to draw
    ("scipy.stats.qmc", "scale"), ("scipy.stats.qmc", "discrepancy"),
    ("scipy.stats.qmc", "geometric_discrepancy"), ("scipy.stats.qmc", "update_discrepancy"),
    ("cma", "CMAOptions"), ("uuid", "UUID"), ("uuid", "uuid3"), ("uuid", "uuid5"),
}
ENTROPY_FUNCS = {("uuid", "uuid1"), ("uuid", "uuid4"), ("random", "SystemRandom")}
# non-library calls whose value is not a function of the program's data (only used when they feed a seed)
NONDETERMINISTIC = {"time.time", "time.time_ns", "time.perf_counter", "time.monotonic", "os.getpid",
                    "datetime.datetime.now", "datetime.now", "id"}
INERT_CALLEES = {"isinstance", "issubclass", "type", "len", "id", "repr", "str", "print", "hasattr", "getattr",
                 "callable", "bool"}

SEVERITY = {"const": 0, "seed": 1, "own": 1, "lossy": 2, "escaped": 2, "fresh": 3, "global": 4, "unknown": 5}
PROV_ORDER = ["fromSeedParam", "ownGenerator", "constant", "entropyOnly", "callerOwned", "fresh", "global",
              "unclassified"]


class V:
    """Abstract value of the def-use pass."""
    __slots__ = ("tag", "path", "gen", "engine", "sp", "child", "note")

    def __init__(self, tag, path="", gen=False, engine=False, sp=None, child=None, note=""):
        self.tag, self.path, self.gen, self.engine = tag, path, gen, engine
        self.sp, self.child, self.note = sp, child, note

    def key(self):
        return (self.tag, self.path, self.gen, self.engine, self.sp, self.child, self.note)

    def __eq__(self, o):
        return isinstance(o, V) and self.key() == o.key()

    def __hash__(self):
        return hash(self.key())

    def but(self, **kw):
        d = {k: getattr(self, k) for k in self.__slots__}
        d.update(kw)
        return V(**d)

    @property
    def seeded(self):
        return self.tag in ("seed", "own", "const")

    def __repr__(self):
        return f"V{self.key()}"


def join(a, b):
    """Least upper bound: the less trustworthy provenance wins."""
    if a is None:
        return b
    if b is None:
        return a
    sa, sb = SEVERITY[a.tag], SEVERITY[b.tag]
    if sa != sb:
        hi, lo = (a, b) if sa > sb else (b, a)
        return hi.but(gen=hi.gen or lo.gen, engine=hi.engine or lo.engine)
    # same severity: deterministic choice; keep spawn information, prefer the longer derivation
    cand = sorted([a, b], key=lambda v: (v.sp is None, -len(v.path), v.tag, v.path, str(v.child), v.note))
    w, o = cand
    return w.but(gen=w.gen or o.gen, engine=w.engine or o.engine)


# --------------------------------------------------------------------------
# helpers


def dotted(n):
    if isinstance(n, ast.Name):
        return n.id
    if isinstance(n, ast.Attribute):
        b = dotted(n.value)
        return None if b is None else b + "." + n.attr
    return None


def canon(qual):
    """(lib, name) of a fully qualified callee inside a random-capable library, else None."""
    if qual is None:
        return None
    parts = qual.split(".")
    last = parts[-1]
    if qual.startswith("numpy.random.") or qual == "numpy.random":
        return ("numpy.random", last if qual != "numpy.random" else "")
    if parts[0] == "random":
        return ("random", last if len(parts) > 1 else "")
    if qual.startswith("scipy.stats.qmc") or qual.startswith("scipy.stats._qmc"):
        return ("scipy.stats.qmc", last)
    if parts[0] == "sklearn":
        return ("sklearn", last)
    if parts[0] == "cma":
        return ("cma", last)
    if parts[0] == "secrets":
        return ("secrets", last)
    if qual in ("os.urandom", "os.getrandom"):
        return ("os.urandom", last)
    if parts[0] == "uuid":
        return ("uuid", last)
    return None


def const_key(n):
    return n.value if isinstance(n, ast.Constant) and isinstance(n.value, str) else None


def subkey(base, key):
    return f'{base}["{key}"]'


def iter_scope(nodes):
    """All AST nodes of a scope, not descending into nested defs / classes (lambdas are descended)."""
    stack = list(nodes)[::-1]
    while stack:
        n = stack.pop()
        if isinstance(n, (ast.FunctionDef, ast.AsyncFunctionDef, ast.ClassDef)):
            continue
        yield n
        stack.extend(list(ast.iter_child_nodes(n))[::-1])


def is_abstract_body(fn):
    body = list(fn.body)
    if body and isinstance(body[0], ast.Expr) and isinstance(body[0].value, ast.Constant) \
            and isinstance(body[0].value.value, str):
        body = body[1:]
    for st in body:
        if isinstance(st, ast.Pass):
            continue
        if isinstance(st, ast.Raise):
            continue
        if isinstance(st, ast.Expr) and isinstance(st.value, ast.Constant):
            continue
        return False
    return True


# --------------------------------------------------------------------------
# per-module analysis


class Module:

    def __init__(self, rel, tree):
        self.rel = rel
        self.tree = tree
        self.alias = {}
        for n in ast.walk(tree):
            if isinstance(n, ast.Import):
                for a in n.names:
                    if a.asname:
                        self.alias[a.asname] = a.name
                    else:
                        top = a.name.split(".")[0]
                        self.alias[top] = top
            elif isinstance(n, ast.ImportFrom):
                if n.level or not n.module:
                    continue
                for a in n.names:
                    self.alias[a.asname or a.name] = n.module + "." + a.name

    def qualify(self, n):
        if isinstance(n, ast.Name):
            return self.alias.get(n.id)
        if isinstance(n, ast.Attribute):
            b = self.qualify(n.value)
            return None if b is None else b + "." + n.attr
        return None


class Analysis:

    def __init__(self, root):
        self.root = root
        self.modules = []
        base = os.path.join(root, "ribs")
        if not os.path.isdir(base):
            raise FileNotFoundError(f"no ribs package under {root}")
        for d, dirs, files in os.walk(base):
            dirs[:] = sorted(x for x in dirs if x != "__pycache__")
            for fn in sorted(files):
                if fn.endswith(".py"):
                    path = os.path.join(d, fn)
                    rel = os.path.relpath(path, root).replace(os.sep, "/")
                    with open(path, encoding="utf-8") as f:
                        src = f.read()
                    self.modules.append(Module(rel, ast.parse(src, filename=path)))
        self.modules.sort(key=lambda m: m.rel)
        # class table: name -> list of (module, ClassDef)
        self.classes = {}
        for m in self.modules:
            for n in ast.walk(m.tree):
                if isinstance(n, ast.ClassDef):
                    self.classes.setdefault(n.name, []).append((m, n))
        self.attrs = {}  # (rel, class name) -> {attr key -> V}
        self.sites = {}
        self.spawns = {}
        # seeded callables of the package itself: name -> position of the `seed` parameter (self not counted)
        self.seeded_callables = {}
        for m in self.modules:
            for n in m.tree.body:
                if isinstance(n, (ast.FunctionDef, ast.AsyncFunctionDef)):
                    pos = self._seed_pos(n, method=False)
                    if pos is not None:
                        self.seeded_callables[n.name] = pos
        for cname in sorted(self.classes):
            pos = self._class_seed_pos(cname, set())
            if pos is not None:
                self.seeded_callables[cname] = pos

    @staticmethod
    def _seed_pos(fn, method):
        """(index among positional parameters or None if keyword-only, ) of a parameter called `seed`; None if absent."""
        a = fn.args
        pos = [p.arg for p in a.posonlyargs + a.args]
        if method and pos:
            pos = pos[1:]
        if "seed" in pos:
            return ("pos", pos.index("seed"))
        if "seed" in [p.arg for p in a.kwonlyargs]:
            return ("kw", None)
        return None

    def _class_seed_pos(self, cname, seen):
        """Where the constructor of class `cname` takes `seed` (its own __init__, else the first base that has one)."""
        if cname in seen:
            return None
        seen.add(cname)
        for (_, c) in self.classes.get(cname, []):
            init = next((x for x in c.body if isinstance(x, ast.FunctionDef) and x.name == "__init__"), None)
            if init is not None:
                return self._seed_pos(init, method=True)
            for b in c.bases:
                bn = dotted(b)
                if bn:
                    r = self._class_seed_pos(bn.split(".")[-1], seen)
                    if r is not None:
                        return r
        return None

    def internal_unseeded(self, call):
        """None, or the name of a seeded callable of the package that this call invokes WITHOUT handing it a seed
        (no `seed=` keyword, not enough positional arguments, no * / ** arguments that could carry one)."""
        d = dotted(call.func)
        if d is None:
            return None
        parts = d.split(".")
        unbound = parts[-1] == "__init__" and len(parts) >= 2  # Base.__init__(self, ...): self is passed explicitly
        cname = parts[-2] if unbound else parts[-1]
        if cname not in self.seeded_callables:
            return None
        if parts[0] in ("self", "cls") and not unbound and len(parts) > 1:
            return None  # a method / attribute that happens to share the name
        how, pos = self.seeded_callables[cname]
        if any(k.arg == "seed" or k.arg is None for k in call.keywords):
            return None
        if any(isinstance(a, ast.Starred) for a in call.args):
            return None
        if how == "pos" and len(call.args) > pos + (1 if unbound else 0):
            return None
        return cname

    # ---- attribute lookup -------------------------------------------------

    def class_attr(self, mod, cls, key, seen=None):
        """Provenance of `self.<key>` in class `cls` (own assignments, else bases, else by name anywhere)."""
        seen = seen or set()
        if cls is not None:
            ident = (mod.rel, cls.name)
            if ident not in seen:
                seen.add(ident)
                v = self.attrs.get(ident, {}).get(key)
                if v is not None:
                    return v
                out = None
                for b in cls.bases:
                    bname = dotted(b)
                    if bname is None:
                        continue
                    for (m2, c2) in self.classes.get(bname.split(".")[-1], []):
                        out = join(out, self.class_attr(m2, c2, key, seen))
                if out is not None:
                    return out
        return None

    def any_attr(self, key):
        out = None
        for ident in sorted(self.attrs):
            v = self.attrs[ident].get(key)
            if v is not None and (v.gen or "[" in key):
                out = join(out, v)
        return out

    # ---- expression provenance --------------------------------------------

    def ev(self, S, e, as_seed=False):
        """Abstract value of expression `e` in scope state S (None = carries no randomness provenance)."""
        mod, env = S["mod"], S["env"]
        if e is None:
            return None
        if isinstance(e, ast.Constant):
            if not as_seed:
                return None
            return V("fresh", note="None") if e.value is None else V("const", path=repr(e.value)[:20])
        if isinstance(e, (ast.Name, ast.Attribute)):
            d = dotted(e)
            if d is not None and d in env:
                return env[d]
            qual = mod.qualify(e)
            if qual in ("numpy.nan", "math.nan", "numpy.NaN", "numpy.NAN"):
                return V("const", path="nan", note="nan") if as_seed else None
            lib = canon(qual)
            if lib is not None:  # reference to a library function, e.g. randn=np.random.randn
                if lib[0] in ("numpy.random", "random") and lib[1] in (NP_GLOBAL_FUNCS | PY_GLOBAL_FUNCS):
                    return V("global", path=qual)
                return None
            if isinstance(e, ast.Attribute):
                if isinstance(e.value, ast.Name) and e.value.id in ("self", "cls"):
                    v = self.class_attr(mod, S["cls"], e.attr)
                    if v is None:
                        v = self.any_attr(e.attr)
                    return self._through_attr(v, e.attr)
                base = self.ev(S, e.value)
                if base is not None and base.tag in ("seed", "own", "lossy") and e.attr in SEEDSEQ_PARTS:
                    # one component of a SeedSequence: `seed.entropy` forgets the spawn key, so all children
                    # spawned from one parent collapse to the parent (`generate_state()` keeps it: see
                    # DERIVING_METHODS); `SeedSequence(s.entropy, spawn_key=s.spawn_key)` is recognised as a
                    # faithful copy where the constructor is classified
                    return V("lossy", path=f"{base.path}.{e.attr}",
                             note=f"only .{e.attr} of a seed is used: the rest of the SeedSequence "
                                  "(spawn key / entropy) is dropped, sibling seeds collapse")
                if base is not None and base.gen and e.attr in GEN_METHODS | {"bit_generator", "seed_seq"}:
                    return base  # bound method of / object inside a generator
                v = self.any_attr(e.attr)  # `other._rng`: by attribute name across all classes
                if v is not None:
                    return self._through_attr(v, e.attr)
            return None
        if isinstance(e, ast.IfExp):
            return join(self.ev(S, e.body, as_seed), self.ev(S, e.orelse, as_seed))
        if isinstance(e, ast.NamedExpr):
            return self.ev(S, e.value, as_seed)
        if isinstance(e, ast.Subscript):
            d = dotted(e.value)
            k = const_key(e.slice)
            if d is not None and k is not None:
                v = self._sub_lookup(S, d, k)
                if v is not None:
                    return v
            v = self.ev(S, e.value)
            if v is not None and v.sp is not None and v.child is None and isinstance(e.slice, ast.Constant) \
                    and isinstance(e.slice.value, int):
                return v.but(child=e.slice.value, path=f"{v.path}[{e.slice.value}]")
            return v
        if isinstance(e, ast.Lambda):
            return self._function_value(S, e.body)
        if isinstance(e, ast.Call):
            return self._call_value(S, e)
        if isinstance(e, ast.Starred):
            return self.ev(S, e.value, as_seed)
        if isinstance(e, (ast.BinOp, ast.UnaryOp, ast.BoolOp, ast.Compare, ast.Tuple, ast.List, ast.Set,
                          ast.JoinedStr, ast.FormattedValue)):
            out = None
            consts = 0
            for c in ast.iter_child_nodes(e):
                if isinstance(c, ast.expr):
                    if isinstance(c, ast.Constant):
                        consts += 1
                        continue
                    out = join(out, self.ev(S, c))
            if out is None and as_seed and consts and not any(
                    isinstance(c, (ast.Name, ast.Attribute, ast.Call)) for c in ast.walk(e) if c is not e):
                return V("const", path="literal")
            return None if out is None else out.but(gen=False, engine=False, sp=None, child=None)
        return None

    @staticmethod
    def _through_attr(v, attr):
        if v is None:
            return None
        if v.gen and v.seeded:
            return V("own", path=attr, gen=True, engine=v.engine)
        if v.tag == "seed" and not v.gen:
            return v.but(path=f"self.{attr}" if not v.path.startswith("self.") else v.path, sp=None, child=None)
        return v

    def _sub_lookup(self, S, d, k):
        env = S["env"]
        key = subkey(d, k)
        if key in env:
            return env[key]
        if d.startswith("self."):
            a = subkey(d[5:], k)
            v = self.class_attr(S["mod"], S["cls"], a)
            if v is None:
                v = self.any_attr(a)
            return v
        return None

    def _function_value(self, S, body):
        """Provenance of a function value (lambda body): where do its draws come from."""
        out = None
        for n in ast.walk(body):
            if isinstance(n, ast.Call):
                info = self.classify_call(S, n)
                if info is not None:
                    out = join(out, info[2])
        return out

    def _seed_arg(self, call, pos, kw):
        for k in call.keywords:
            if k.arg == kw:
                return k.value, True
        if pos is not None and len(call.args) > pos and not any(isinstance(a, ast.Starred) for a in call.args[:pos + 1]):
            return call.args[pos], True
        return None, False

    def _call_value(self, S, call):
        info = self.classify_call(S, call)
        if info is not None:
            kind, api, v = info
            if kind == "construct":
                return v.but(gen=True)
            if kind == "library":
                return v.but(gen=True, engine=True)
            if kind == "spawn":
                return v
            # a drawn value used as seed material
            return v.but(gen=False, engine=False, sp=None, child=None)
        func = call.func
        qual = S["mod"].qualify(func)
        if qual in NONDETERMINISTIC or (isinstance(func, ast.Name) and func.id in NONDETERMINISTIC
                                        and func.id not in S["env"]):
            return V("fresh", path=qual or func.id)
        if isinstance(func, ast.Attribute) and func.attr in DERIVING_METHODS:
            v = self.ev(S, func.value)
            if v is not None:
                return v.but(gen=False, engine=False, sp=None, child=None)
        out = None
        for a in list(call.args) + [k.value for k in call.keywords]:
            out = join(out, self.ev(S, a))
        return None if out is None else out.but(gen=False, engine=False, sp=None, child=None)

    # ---- call classification ----------------------------------------------

    def classify_call(self, S, call):
        """None, or (kind, api, V) when the call is a random site."""
        mod = S["mod"]
        func = call.func
        qual = mod.qualify(func)
        lib = canon(qual)
        if lib is not None:
            L, name = lib
            if (L, name) in NONRANDOM:
                return None
            if L == "numpy.random" and name in NP_CONSTRUCTORS or (L, name) == ("random", "Random"):
                pos, kw = NP_CONSTRUCTORS.get(name, (0, "x"))
                arg, present = self._seed_arg(call, pos, kw)
                if not present:
                    v = V("fresh", note="no seed argument")
                else:
                    v = self.ev(S, arg, as_seed=True)
                    if v is not None and v.tag == "lossy" and name == "SeedSequence":
                        # SeedSequence(s.entropy, spawn_key=s.spawn_key): a faithful copy of s
                        sk = next((self.ev(S, k.value) for k in call.keywords if k.arg == "spawn_key"), None)
                        if sk is not None and sk.tag == "lossy" and sk.path.endswith(".spawn_key") \
                                and v.path.endswith(".entropy") \
                                and sk.path[:-len(".spawn_key")] == v.path[:-len(".entropy")]:
                            v = V("seed", path=v.path[:-len(".entropy")] + ".copy")
                    if v is None:
                        v = V("unknown", note="seed argument of unknown provenance: " + ast.unparse(arg)[:40])
                    elif v.tag in ("seed", "lossy"):
                        v = v.but(path=f"{v.path}.{name}" if name != "default_rng" else v.path)
                return ("construct", f"{L}.{name}", v.but(gen=True, engine=False, sp=None, child=None))
            if (L, name) in ENTROPY_FUNCS or L in ("secrets", "os.urandom"):
                return ("entropy", f"{L}.{name}" if L != "os.urandom" else qual, V("fresh", note="OS entropy"))
            if (L == "numpy.random" and name in NP_GLOBAL_FUNCS) or (L == "random" and name in PY_GLOBAL_FUNCS):
                if S.get("numba"):
                    # inside a numba-compiled function these names are numba's own per-thread generator: seeded
                    # from OS entropy at start-up, untouched by np.random.seed / random.seed and by every seed of ours
                    return ("moduleDraw", f"{L}.{name} [in a numba-compiled function: numba's own generator]",
                            V("fresh", note="numba's generator is seeded from OS entropy; no seed reaches it"))
                return ("moduleDraw", f"{L}.{name}", V("global"))
            if L == "scipy.stats.qmc" and name in QMC_ENGINES:
                det = QMC_ENGINES[name]
                kws = {k.arg: k.value for k in call.keywords if k.arg}
                if det is not None and det[0] in kws and isinstance(kws[det[0]], ast.Constant) \
                        and kws[det[0]].value is det[1]:
                    return ("library", f"scipy.stats.qmc.{name}[{det[0]}={det[1]}]",
                            V("const", path=f"{det[0]}={det[1]}"))
                v = None
                given = False
                for k in QMC_SEED_KW:
                    if k in kws:
                        given = True
                        v = join(v, self.ev(S, kws[k], as_seed=True))
                for k in call.keywords:
                    if k.arg is None:  # **kwargs
                        d = dotted(k.value)
                        for kk in QMC_SEED_KW:
                            vv = self._sub_lookup(S, d, kk) if d else None
                            if vv is not None:
                                given = True
                                v = join(v, vv)
                if not given:
                    v = V("fresh", note="library default entropy")
                elif v is None:
                    v = V("unknown", note="seed argument of unknown provenance")
                return ("library", f"scipy.stats.qmc.{name}", v)
            if L == "sklearn" and name in SKLEARN_RANDOM:
                kws = {k.arg: k.value for k in call.keywords if k.arg}
                v = None
                given = False
                if "random_state" in kws:
                    given = True
                    v = self.ev(S, kws["random_state"], as_seed=True)
                via = ""
                for k in call.keywords:
                    if k.arg is None:
                        d = dotted(k.value)
                        vv = self._sub_lookup(S, d, "random_state") if d else None
                        if vv is not None:
                            given = True
                            via = f"[random_state via **{d}]"
                            v = join(v, vv)
                if not given:
                    v = V("global", note="random_state not passed: sklearn uses the global RandomState")
                elif v is None:
                    v = V("unknown", note="random_state of unknown provenance")
                return ("library", f"sklearn.{name}{via}", v)
            if L == "cma" and name in CMA_RANDOM:
                pos, kw = CMA_RANDOM[name]
                arg, present = self._seed_arg(call, pos, kw)
                randn = seed = None
                desc = "no options"
                if present:
                    if isinstance(arg, ast.Dict):
                        for k, val in zip(arg.keys, arg.values):
                            if const_key(k) == "randn":
                                randn = self.ev(S, val, as_seed=True)
                            if const_key(k) == "seed":
                                seed = self.ev(S, val, as_seed=True)
                        desc = "dict literal"
                    else:
                        d = dotted(arg)
                        desc = d or ast.unparse(arg)[:30]
                        if d:
                            randn = self._sub_lookup(S, d, "randn")
                            seed = self._sub_lookup(S, d, "seed")
                seed_desc = "unset" if seed is None else ("nan" if seed.note == "nan" else seed.tag)
                if randn is None:
                    v = V("global", note="opts['randn'] not set: pycma draws from and seeds np.random")
                    rdesc = "unset"
                else:
                    v = randn
                    rdesc = randn.path or randn.tag
                return ("library", f"cma.{name}[opts={desc};randn<-{rdesc};seed={seed_desc}]",
                        v.but(gen=True, engine=True))
            return ("other", qual, V("unknown", note="not in the API table"))
        # method calls on objects
        if isinstance(func, ast.Attribute):
            m = func.attr
            if m == "spawn":
                v = self.ev(S, func.value)
                if v is None:
                    return None
                n = call.args[0].value if call.args and isinstance(call.args[0], ast.Constant) \
                    and isinstance(call.args[0].value, int) else None
                sp = (mod.rel, call.lineno, call.col_offset, n, dotted(func.value))
                path = f"{v.path}.spawn" if v.tag in ("seed", "own") else v.path
                return ("spawn", "SeedSequence.spawn" if not v.gen or "SeedSequence" in v.path else "Generator.spawn",
                        v.but(sp=sp, child=None, path=path, gen=v.gen))
            if m == "rvs":  # scipy.stats distributions: random_state=None means the global RandomState
                kws = {k.arg: k.value for k in call.keywords if k.arg}
                if "random_state" in kws:
                    v = self.ev(S, kws["random_state"], as_seed=True) or V(
                        "unknown", note="random_state of unknown provenance")
                else:
                    v = V("global", note="rvs without random_state draws from the global RandomState")
                return ("library", f"<distribution {ast.unparse(func.value)[:30]}>.rvs", v)
            if m in GEN_METHODS:
                v = self.ev(S, func.value)
                if v is not None and (v.gen or (v.tag == "seed" and isinstance(func.value, ast.Name))):
                    # a generator object, or a seed-like parameter (`rng`, `generator`) used as one
                    if v.engine:
                        return None  # draws on a library engine: the engine's construction site stands for them
                    return ("draw", f"Generator.{m}", v)
                if v is None and m in DISTINCTIVE and S["mod"].qualify(func.value) is None:
                    return ("draw", f"<unknown receiver {ast.unparse(func.value)[:30]}>.{m}",
                            V("unknown", note="draw on an object of unknown provenance"))
        return None

    # ---- def-use pass over one scope --------------------------------------

    def assign(self, S, target, v, changed):
        env = S["env"]

        def put(key, val):
            if val is None:
                return
            new = join(env.get(key), val)
            if env.get(key) != new:
                env[key] = new
                changed[0] = True

        if isinstance(target, (ast.Name, ast.Attribute)):
            d = dotted(target)
            if d:
                put(d, v)
        elif isinstance(target, ast.Subscript):
            d, k = dotted(target.value), const_key(target.slice)
            if d and k is not None:
                put(subkey(d, k), v)
        elif isinstance(target, (ast.Tuple, ast.List)):
            for i, t in enumerate(target.elts):
                if v is not None and v.sp is not None and v.child is None:
                    self.assign(S, t, v.but(child=i, path=f"{v.path}[{i}]"), changed)
                else:
                    self.assign(S, t, v, changed)
        elif isinstance(target, ast.Starred):
            self.assign(S, target.value, v, changed)

    def defuse(self, S, body):
        for _ in range(12):
            changed = [False]
            for n in iter_scope(body):
                if isinstance(n, ast.Assign):
                    if isinstance(n.value, (ast.Tuple, ast.List)) and len(n.targets) == 1 and isinstance(
                            n.targets[0], (ast.Tuple, ast.List)) and len(n.targets[0].elts) == len(n.value.elts):
                        for t, val in zip(n.targets[0].elts, n.value.elts):
                            self.assign(S, t, self._assigned(S, val), changed)
                    else:
                        for t in n.targets:
                            self.assign(S, t, self._assigned(S, n.value, t), changed)
                elif isinstance(n, ast.AnnAssign) and n.value is not None:
                    self.assign(S, n.target, self._assigned(S, n.value, n.target), changed)
                elif isinstance(n, ast.AugAssign):
                    self.assign(S, n.target, self.ev(S, n.value), changed)
                elif isinstance(n, ast.NamedExpr):
                    self.assign(S, n.target, self._assigned(S, n.value), changed)
                elif isinstance(n, (ast.For, ast.AsyncFor)):
                    self.assign(S, n.target, self.ev(S, n.iter), changed)
                elif isinstance(n, ast.comprehension):
                    self.assign(S, n.target, self.ev(S, n.iter), changed)
                elif isinstance(n, (ast.With, ast.AsyncWith)):
                    for it in n.items:
                        if it.optional_vars is not None:
                            self.assign(S, it.optional_vars, self.ev(S, it.context_expr), changed)
                elif isinstance(n, ast.Call) and isinstance(n.func, ast.Attribute):
                    d = dotted(n.func.value)
                    if d is None:
                        continue
                    if n.func.attr == "setdefault" and len(n.args) == 2 and const_key(n.args[0]) is not None:
                        # kwargs.setdefault("random_state", seed): the entry is the caller's value or this one;
                        # a caller-supplied entry is the caller's seed, so the default decides the provenance
                        v = self.ev(S, n.args[1], as_seed=True)
                        self._put_sub(S, d, const_key(n.args[0]), v, changed)
                    elif n.func.attr == "update":
                        for k in n.keywords:
                            if k.arg:
                                self._put_sub(S, d, k.arg, self.ev(S, k.value, as_seed=True), changed)
                        for a in n.args:
                            if isinstance(a, ast.Dict):
                                for k, val in zip(a.keys, a.values):
                                    if const_key(k) is not None:
                                        self._put_sub(S, d, const_key(k), self.ev(S, val, as_seed=True), changed)
            if not changed[0]:
                break

    def _assigned(self, S, value, target=None):
        """Value of an assignment's right-hand side.  Overwriting a seed parameter with a literal
        (`seed = None`, `seed = 0`) counts: the literal is evaluated as a seed."""
        as_seed = isinstance(target, ast.Name) and target.id in S["roots"]
        return self.ev(S, value, as_seed=as_seed)

    def _put_sub(self, S, d, k, v, changed):
        if v is None:
            return
        env = S["env"]
        key = subkey(d, k)
        new = join(env.get(key), v)
        if env.get(key) != new:
            env[key] = new
            changed[0] = True

    def subscript_stores(self, S, body, changed):
        """`d["key"] = value` and dict literals: values are evaluated as seed arguments (literals count)."""
        for n in iter_scope(body):
            if isinstance(n, ast.Assign):
                for t in n.targets:
                    if isinstance(t, ast.Subscript):
                        d, k = dotted(t.value), const_key(t.slice)
                        if d and k is not None:
                            self._put_sub(S, d, k, self.ev(S, n.value, as_seed=True), changed)
                    elif isinstance(n.value, ast.Dict) and dotted(t):
                        for k, val in zip(n.value.keys, n.value.values):
                            if k is not None and const_key(k) is not None:
                                self._put_sub(S, dotted(t), const_key(k), self.ev(S, val, as_seed=True), changed)
                    elif isinstance(n.value, ast.Call) and isinstance(n.value.func, ast.Name) \
                            and n.value.func.id == "dict" and dotted(t):
                        for k in n.value.keywords:
                            if k.arg:
                                self._put_sub(S, dotted(t), k.arg, self.ev(S, k.value, as_seed=True), changed)

    # ---- scopes -----------------------------------------------------------

    def scopes(self, mod):
        """Yields (scope name, class node or None, function node or None, body)."""
        out = []

        def visit(body, prefix, cls, fn):
            out.append((prefix or "<module>", cls, fn, body))
            # nested definitions directly or indirectly inside this scope's statements
            stack = list(body)[::-1]
            while stack:
                n = stack.pop()
                for c in ast.iter_child_nodes(n) if not isinstance(
                        n, (ast.FunctionDef, ast.AsyncFunctionDef, ast.ClassDef)) else []:
                    stack.append(c)
                if isinstance(n, (ast.FunctionDef, ast.AsyncFunctionDef)):
                    visit(n.body, (prefix + "." if prefix else "") + n.name, cls, n)
                elif isinstance(n, ast.ClassDef):
                    visit(n.body, (prefix + "." if prefix else "") + n.name, n, None)

        visit(mod.tree.body, "", None, None)
        return out

    def scope_state(self, mod, cls, fn):
        env = {}
        if fn is not None:
            a = fn.args
            for p in a.posonlyargs + a.args + a.kwonlyargs:
                if SEED_PARAM.search(p.arg) and p.arg not in ("self", "cls"):
                    env[p.arg] = V("seed", path=p.arg)
        numba = False
        if fn is not None:
            for dec in fn.decorator_list:
                q = mod.qualify(dec.func if isinstance(dec, ast.Call) else dec) or ""
                if q.split(".")[0] == "numba" and q.split(".")[-1] in NUMBA_COMPILERS:
                    numba = True
        return {"mod": mod, "cls": cls, "fn": fn, "env": env, "roots": set(env), "numba": numba}

    def run_scope(self, mod, name, cls, fn, body):
        S = self.scope_state(mod, cls, fn)
        for _ in range(4):
            changed = [False]
            self.defuse(S, body)
            self.subscript_stores(S, body, changed)
            if not changed[0]:
                break
        return S

    # ---- driver -----------------------------------------------------------

    def analyse(self):
        # the class attribute table is recomputed from scratch each round (looking attributes of other
        # methods / classes up in the previous round's table) until it is stable; then sites are emitted
        for _ in range(8):
            new = {}
            for mod in self.modules:
                for name, cls, fn, body in self.scopes(mod):
                    if cls is None or fn is None:
                        continue
                    S = self.run_scope(mod, name, cls, fn, body)
                    table = new.setdefault((mod.rel, cls.name), {})
                    for key, v in S["env"].items():
                        if key.startswith("self.") and v is not None:
                            table[key[5:]] = join(table.get(key[5:]), v)
            stable = new == self.attrs
            self.attrs = new
            if stable:
                break
        for mod in self.modules:
            for name, cls, fn, body in self.scopes(mod):
                S = self.run_scope(mod, name, cls, fn, body)
                self.emit_scope(mod, name, cls, fn, body, S)

    def emit_scope(self, mod, name, cls, fn, body, S):
        spawn_recv = {}
        for n in iter_scope(body):
            if isinstance(n, ast.Call):
                info = self.classify_call(S, n)
                if info is None:
                    target = self.internal_unseeded(n)
                    # only inside a component that is itself seeded (the function takes a seed, or it is a method
                    # of a class whose constructor does): a helper without any seed to hand on, such as the
                    # throw-away CVTArchive of the QDax plotting wrapper, has nothing to honour
                    seeded_scope = bool(S["roots"]) or (cls is not None and cls.name in self.seeded_callables)
                    if target is not None and seeded_scope:
                        # the hand-off of the seed between functions is outside the def-use pass, but a seeded
                        # component of the package that is constructed without any seed is visible from here
                        self.add_site(mod.rel, n.lineno, n.col_offset, name, "construct",
                                      f"ribs {target}(...) called without its seed argument",
                                      V("fresh", note=f"{target} takes `seed` (default None = OS entropy) and is "
                                                      "given none"))
                if info is not None:
                    kind, api, v = info
                    self.add_site(mod.rel, n.lineno, n.col_offset, name, kind, api, v)
                    if kind == "spawn":
                        spawn_recv[v.sp] = dotted(n.func.value)
                        self.spawns.setdefault(v.sp, {"file": mod.rel, "line": n.lineno, "scope": name,
                                                      "n": v.sp[3], "consumers": set()})
            elif isinstance(n, ast.Attribute) and isinstance(n.ctx, ast.Load):
                qual = mod.qualify(n)
                lib = canon(qual)
                if lib and lib[0] in ("numpy.random", "random") and lib[1] in (NP_GLOBAL_FUNCS if lib[0] ==
                                                                                "numpy.random" else PY_GLOBAL_FUNCS):
                    # reference to a global draw function that is not simply being called here
                    if not self._is_callee(body, n):
                        self.add_site(mod.rel, n.lineno, n.col_offset, name, "moduleDraw", qual + " (reference)",
                                      V("global"))
        # consumers of spawned children
        for n in iter_scope(body):
            if not isinstance(n, ast.Call):
                continue
            callee = ast.unparse(n.func)
            if callee in INERT_CALLEES:
                continue
            for a in list(n.args) + [k.value for k in n.keywords]:
                v = self.ev(S, a)
                if v is not None and v.sp is not None and v.sp in self.spawns:
                    self.spawns[v.sp]["consumers"].add((n.lineno, callee, v.child))
                d = dotted(a)
                for sp, recv in spawn_recv.items():
                    if recv is not None and d == recv and not (isinstance(n.func, ast.Attribute)
                                                                and n.func.attr == "spawn"):
                        self.spawns[sp]["consumers"].add((n.lineno, callee, None))
        # seed material written into a container that (may be) owned by the caller
        if fn is not None:
            owned = self.caller_owned(fn, body)
            for n in iter_scope(body):
                stores = []  # (container expr, key text, value expr)
                if isinstance(n, ast.Assign):
                    for t in n.targets:
                        if isinstance(t, ast.Subscript):
                            stores.append((t.value, ast.unparse(t.slice), n.value))
                elif isinstance(n, ast.Call) and isinstance(n.func, ast.Attribute):
                    if n.func.attr == "setdefault" and len(n.args) == 2:
                        stores.append((n.func.value, ast.unparse(n.args[0]), n.args[1]))
                    elif n.func.attr == "update":
                        for k in n.keywords:
                            if k.arg:
                                stores.append((n.func.value, repr(k.arg), k.value))
                        for a in n.args:
                            if isinstance(a, ast.Dict):
                                for k, val in zip(a.keys, a.values):
                                    if k is not None:
                                        stores.append((n.func.value, ast.unparse(k), val))
                for cont, key, val in stores:
                    d = dotted(cont)
                    if d is None or d not in owned:
                        continue
                    v = self.ev(S, val, as_seed=True)
                    if v is not None and v.tag in ("seed", "own", "lossy"):
                        self.add_site(mod.rel, n.lineno, n.col_offset, name, "escape",
                                      f"{d}[{key[:24]}] <- seed material ({owned[d]})",
                                      V("escaped", path=f"{v.path}->{d}",
                                        note="the component's seed / generator is stored in an object the caller "
                                             "may share with other components"))
        # a seed parameter that is never used
        if fn is not None and not is_abstract_body(fn):
            used = {x.id for x in ast.walk(fn) if isinstance(x, ast.Name) and isinstance(x.ctx, ast.Load)}
            a = fn.args
            for p in a.posonlyargs + a.args + a.kwonlyargs:
                if p.arg in ("seed", "random_state", "rng") and p.arg not in used and not a.kwarg:
                    self.add_site(mod.rel, p.lineno, p.col_offset, name, "seedParam",
                                  f"<parameter {p.arg} is never used>", V("fresh", note="seed dropped"))

    @staticmethod
    def caller_owned(fn, body):
        """Names / attributes of this function that may refer to a mutable object handed in by the caller:
        a parameter that is never rebound to a fresh object (`kw = dict(kw)`, `kw.copy()`, a literal), and
        anything assigned from an expression that may evaluate to such a name (`self._opts = opts or {}`,
        `kw = {} if kw is None else kw`).  Returns {dotted name: description}."""
        a = fn.args
        params = {p.arg for p in a.posonlyargs + a.args + a.kwonlyargs} - {"self", "cls"}
        assigns = {}
        for n in iter_scope(body):
            pairs = []
            if isinstance(n, ast.Assign):
                pairs = [(t, n.value) for t in n.targets]
            elif isinstance(n, (ast.AnnAssign, ast.NamedExpr)) and n.value is not None:
                pairs = [(n.target, n.value)]
            for t, val in pairs:
                d = dotted(t)
                if d is not None:
                    assigns.setdefault(d, []).append(val)

        def may_alias(e):
            if isinstance(e, (ast.Name, ast.Attribute)):
                d = dotted(e)
                return {d} if d else set()
            if isinstance(e, ast.IfExp):
                return may_alias(e.body) | may_alias(e.orelse)
            if isinstance(e, ast.BoolOp):
                out = set()
                for v in e.values:
                    out |= may_alias(v)
                return out
            if isinstance(e, ast.NamedExpr):
                return may_alias(e.value)
            return set()  # calls, literals, comprehensions: a fresh object

        owned = {}
        for p in sorted(params):
            vals = assigns.get(p, [])
            # rebinding the parameter to something that cannot be the caller's object ends the ownership
            if all(may_alias(v) & params for v in vals):
                owned[p] = f"parameter {p}"
        for _ in range(4):
            grew = False
            for t, vals in sorted(assigns.items()):
                if t in owned or t in params:
                    continue
                src = sorted({x for v in vals for x in may_alias(v) if x in owned})
                if src:
                    owned[t] = f"may be parameter {src[0]}"
                    grew = True
            if not grew:
                break
        return owned

    @staticmethod
    def _is_callee(body, attr):
        for n in iter_scope(body):
            if isinstance(n, ast.Call) and n.func is attr:
                return True
        return False

    def add_site(self, rel, line, col, scope, kind, api, v):
        if v.tag == "seed":
            prov = ("fromSeedParam", v.path)
        elif v.tag == "own":
            prov = ("ownGenerator", v.path)
        elif v.tag == "lossy":
            prov = ("entropyOnly", v.path)
        elif v.tag == "escaped":
            prov = ("callerOwned", v.path)
        elif v.tag == "const":
            prov = ("constant", "")
        elif v.tag == "fresh":
            prov = ("fresh", "")
        elif v.tag == "global":
            prov = ("global", "")
        else:
            prov = ("unclassified", "")
        self.sites[(rel, line, col, api)] = {"file": rel, "line": line, "col": col, "scope": scope, "kind": kind,
                                             "api": api, "prov": prov, "note": v.note}


# --------------------------------------------------------------------------
# Lean emission

_FORBIDDEN = re.compile(r"\b(sorry|admit|native_decide|bv_decide|implemented_by|unsafe|axiom)\b|maxHeartbeats")


def lean_str(s):
    out = []
    for ch in s:
        if ch == "\\":
            out.append("\\\\")
        elif ch == '"':
            out.append('\\"')
        elif ch == "\n":
            out.append("\\n")
        elif ch == "\t":
            out.append("\\t")
        elif ord(ch) < 32 or ord(ch) > 126:
            out.append("?")
        else:
            out.append(ch)
    s2 = "".join(out)
    # identifiers of the source may coincide with tokens the audit greps for: spell their first letter as an escape
    s2 = _FORBIDDEN.sub(lambda m: "\\x%02x" % ord(m.group(0)[0]) + m.group(0)[1:], s2)
    return '"' + s2 + '"'


def lean_prov(p):
    tag, arg = p
    if tag in ("fromSeedParam", "ownGenerator", "entropyOnly", "callerOwned"):
        return f".{tag} {lean_str(arg)}"
    return f".{tag}"


def lean_opt(n):
    return "none" if n is None else f"(some {int(n)})"


def render(sites, spawns):
    lines = [
        "import PyribsModel.Rng",
        "/-! GENERATED by harness/translate/rng_sites.py from the working tree of `ribs/` on every",
        "`./check C09 ...` run -- do not edit.  One record per random site / per `.spawn` call. -/",
        "namespace Pyribs.Gen",
        "open Pyribs.Rng",
        "",
        f"/-- {len(sites)} random sites -/",
        "def sites : List Site := [",
    ]
    rows = []
    for s in sites:
        rows.append(f"  ⟨{lean_str(s['file'])}, {s['line']}, {s['col']}, {lean_str(s['scope'])}, .{s['kind']}, "
                    f"{lean_str(s['api'])}, {lean_prov(s['prov'])}⟩")
    lines.append(",\n".join(rows))
    lines.append("]")
    lines.append("")
    lines.append(f"/-- {len(spawns)} spawn sites with the calls that receive their children -/")
    lines.append("def spawns : List Spawn := [")
    rows = []
    for sp in spawns:
        cons = ", ".join(f"⟨{ln}, {lean_str(callee)}, {lean_opt(child)}⟩" for ln, callee, child in sp["consumers"])
        rows.append(f"  ⟨{lean_str(sp['file'])}, {sp['line']}, {lean_str(sp['scope'])}, {lean_opt(sp['n'])}, [{cons}]⟩")
    lines.append(",\n".join(rows))
    lines.append("]")
    lines.append("")
    lines.append("end Pyribs.Gen")
    return "\n".join(lines) + "\n"


def analyse(repo):
    """Returns (sites, spawns): lists of dicts, deterministically sorted."""
    an = Analysis(repo)
    an.analyse()
    sites = [an.sites[k] for k in sorted(an.sites)]
    spawns = []
    for k in sorted(an.spawns, key=lambda k: (k[0], k[1], k[2])):
        sp = dict(an.spawns[k])
        sp["consumers"] = sorted(sp["consumers"], key=lambda c: (c[0], c[1], -1 if c[2] is None else c[2]))
        spawns.append(sp)
    return sites, spawns


def translate(repo, out_path):
    """Regenerates `out_path`; writes only when the content changed. Returns (sites, spawns, changed)."""
    sites, spawns = analyse(repo)
    text = render(sites, spawns)
    old = None
    if os.path.exists(out_path):
        with open(out_path, encoding="utf-8") as f:
            old = f.read()
    changed = old != text
    if changed:
        os.makedirs(os.path.dirname(out_path), exist_ok=True)
        tmp = out_path + f".tmp{os.getpid()}"
        with open(tmp, "w", encoding="utf-8") as f:
            f.write(text)
        os.replace(tmp, out_path)
    return sites, spawns, changed


def seeded(site):
    return site["prov"][0] in ("fromSeedParam", "ownGenerator", "constant")


def spawn_separated(sp):
    cons = sp["consumers"]
    for (_, ca, ia) in cons:
        if ia is None or (sp["n"] is not None and ia >= sp["n"]):
            return False
        for (_, cb, ib) in cons:
            if ca != cb and ia == ib:
                return False
    return True


if __name__ == "__main__":
    root = sys.argv[1] if len(sys.argv) > 1 else os.environ.get("VERIF_REPO", "/repo")
    ss, sps = analyse(root)
    for s in ss:
        print(f"{s['file']}:{s['line']}:{s['col']} | {s['scope']} | {s['kind']} | {s['api']} | "
              f"{s['prov'][0]} {s['prov'][1]} | {s['note']}")
    for sp in sps:
        print("spawn", sp)
    print(len(ss), "sites;", sum(1 for s in ss if not seeded(s)), "not seeded;", len(sps), "spawns")
    if len(sys.argv) > 2:
        print("written:", translate(root, sys.argv[2])[2])
