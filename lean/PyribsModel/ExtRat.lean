/-!
# ExtRat — floats as the control-flow translator reads them

`harness/translate/control.py` turns the decision logic of the archive transforms into Lean
definitions (`PyribsGen/Control.lean`, regenerated from the source tree on every run).  A float is
read as `E`: `-inf` (the `threshold_min` of an elitist archive), a finite rational, or anything
else (`+inf`, NaN).  Comparisons follow IEEE for these three classes (`-inf < finite`; nothing
compares with `bad`); arithmetic is exact on two finite values and `bad` otherwise, which is
conservative: a theorem "generated output = `E.fin q`" also says that no arithmetic touched a
non-finite operand.
-/
namespace Pyribs

inductive E where
  | negInf
  | fin (q : Rat)
  | bad
deriving DecidableEq, Repr

namespace E

def lt : E → E → Bool
  | negInf, fin _ => true
  | fin a, fin b => decide (a < b)
  | _, _ => false

def le : E → E → Bool
  | negInf, fin _ => true
  | negInf, negInf => true
  | fin a, fin b => decide (a ≤ b)
  | _, _ => false

def isNegInf : E → Bool
  | negInf => true
  | _ => false

def lift2 (f : Rat → Rat → Rat) : E → E → E
  | fin a, fin b => fin (f a b)
  | _, _ => bad

def add : E → E → E := lift2 (· + ·)
def sub : E → E → E := lift2 (· - ·)
def mul : E → E → E := lift2 (· * ·)

/-- `threshold_min` of the archive model: `none` is `-inf` -/
def ofOpt : Option Rat → E
  | none => negInf
  | some q => fin q

end E
end Pyribs
