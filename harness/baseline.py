"""Runs the pinned test suite of /repo and compares with /root/.vp/BASELINE.json (stable_pass list)."""
import json
import subprocess
import sys
import xml.etree.ElementTree as ET

out = "/tmp/pyribs_verif_baseline.junit.xml"
subprocess.run(f"cd /repo && /venv/bin/python -m pytest -ra -q -p no:cacheprovider --timeout=900 "
               f"--continue-on-collection-errors --no-cov --junitxml={out}", shell=True,
               stdout=subprocess.DEVNULL, stderr=subprocess.DEVNULL, check=False)
base = json.load(open("/root/.vp/BASELINE.json"))
want = set(base["stable_pass"])
got = set()
for tc in ET.parse(out).getroot().iter("testcase"):
    if not any(ch.tag in ("failure", "error", "skipped") for ch in tc):
        got.add(f"{tc.get('classname')}::{tc.get('name')}")
missing = sorted(want - got)
print(f"baseline stable_pass={len(want)} passed_now={len(got)} missing={len(missing)}")
for m in missing[:20]:
    print("  MISSING", m)
sys.exit(1 if missing else 0)
