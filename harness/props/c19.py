"""C19 — DQD emitters branch along the supplied gradients and step toward better branches.

Correspondence: the real `GradientArborescenceEmitter` and `GradientOperatorEmitter` are driven through
arbitrary call sequences (ask_dqd / tell_dqd / ask / tell, before and after gradients, archive changes in
between) in lock step with the Lean `Dqd` model (`PyribsModel/Dqd.lean`, machine `dqd`).

* GradientArborescenceEmitter is built with a *spy evolution strategy* (returns scripted coefficient rows,
  scripted `check_stop`, logs `tell` / `reset`), a *spy ranker* (scripted ranking) and a *spy gradient
  optimizer* (logs the gradient handed to `step`, applies `theta += lr * gradient`), injected through the
  public `es=`, `ranker=` and `grad_opt=` arguments; the real `gradient_ascent` and `adam` optimizers are
  used as well.  θ is observed through the next `ask_dqd()`.
* GradientOperatorEmitter's coefficient noise is reproduced from the seed (same generator, same call order);
  it is run with and without solution bounds, and the rows its `ask_dqd()` RETURNS (copied at once) are what the
  model and the oracle branch from: `ask()` must equal clip(returned parent + combination of the gradients).

Numeric policy: un-normalised dyadic inputs with at most one selected parent are compared **exactly**;
normalised gradients, several parents (log weights) and Gaussian coefficients within 2^-40 relative.

Oracle (read on the implementation only): RuntimeError and unchanged state for ask / tell before gradients;
zero Jacobian => ask returns θ; zero selected solutions and no restart => θ unchanged; with gradient ascent
(0 < lr <= 1) θ' lies coordinate-wise between θ and the weighted mean of the selected solutions; on restart
θ is a row of `archive.data("solution")`, the strategy is reset to mean 0 and `restarts` moves; the
objective coefficient of GradientOperatorEmitter is non-negative; every row of its `ask()` is
clip(parent returned by ask_dqd + sigma_g * objective gradient) when measure gradients are off, and -- when they
are on and the final clip is inactive -- differs from the returned parent by a vector in the span of the gradients.
"""
import copy
import warnings
from fractions import Fraction

import numpy as np

from core import Driver, Failure, q

ID = "C19"
from genf import translate  # noqa: E402,F401  (regenerates lean/PyribsGen/Formulas.lean from the tree under check)
PROOF_MODULES = ["PyribsProofs.C19", "PyribsGen.Formulas", "PyribsProofs.GenFOpt", "PyribsProofs.GenFCtl",
                 "PyribsGen.Control", "PyribsProofs.GenFTell"]
THEOREMS = [
    "Pyribs.GenFProofs.tell_trace_from_source",
    "Pyribs.GenFProofs.gae_num_parents_matches",
    "Pyribs.GenFProofs.gae_check_restart_matches",
    # update rules of the gradient optimizers, regenerated from the source (harness/translate/formulas.py)
    "Pyribs.GenFProofs.ascent_matches",
    "Pyribs.GenFProofs.adam_matches",
    "Pyribs.C19.branch_in_span",
    "Pyribs.C19.branch_sub_theta",
    "Pyribs.C19.branch_zero_jacobian",
    "Pyribs.C19.branch_rank_one",
    "Pyribs.C19.gae_ask_rows",
    "Pyribs.C19.normaliseRow_dir",
    "Pyribs.C19.normalise_factor_pos",
    "Pyribs.C19.normaliseRow_zero",
    "Pyribs.C19.objective_coeff_nonneg",
    "Pyribs.C19.gopCoeffs_obj",
    "Pyribs.C19.gopCoeffs_rest",
    "Pyribs.C19.gopBranch_in_span",
    "Pyribs.C19.gopObjOnly_in_span",
    "Pyribs.C19.gop_askDqd_returns_stored",
    "Pyribs.C19.gop_parents_preserved",
    "Pyribs.C19.gop_ask_rows_spec",
    "Pyribs.C19.gop_ask_rows_obj_spec",
    "Pyribs.C19.gop_ask_from_returned",
    "Pyribs.C19.gop_ask_unbounded",
    "Pyribs.C19.gop_ask_in_bounds",
    "Pyribs.C19.gop_clip_idempotent",
    "Pyribs.C19.gae_refuses_ask",
    "Pyribs.C19.gae_refuses_tell",
    "Pyribs.C19.gae_allows_ask",
    "Pyribs.C19.gae_allows_tell",
    "Pyribs.C19.gae_tellDqd_sets",
    "Pyribs.C19.gae_before_gradients",
    "Pyribs.C19.gae_jac_persistent",
    "Pyribs.C19.gop_refuses_ask",
    "Pyribs.C19.gop_refuses_ask_nonempty",
    "Pyribs.C19.gop_startup_ask",
    "Pyribs.C19.gop_startup_askDqd",
    "Pyribs.C19.gop_no_initial_on_nonempty",
    "Pyribs.C19.gop_empty_batch",
    "Pyribs.C19.gop_ask_pure",
    "Pyribs.C19.gop_allows_ask",
    "Pyribs.C19.gop_tell_noop",
    "Pyribs.C19.gop_before_gradients",
    "Pyribs.C19.gop_jac_persistent",
    "Pyribs.C19.zero_parents_fixpoint",
    "Pyribs.C19.zero_parents_defect_witness",
    "Pyribs.C19.zero_parents_defect",
    "Pyribs.C19.step_toward_mean",
    "Pyribs.C19.step_on_segment",
    "Pyribs.C19.step_full_lr",
    "Pyribs.C19.mean_in_hull",
    "Pyribs.C19.mean_single",
    "Pyribs.C19.effGrad_no_l2",
    "Pyribs.C19.l2_pulls_toward_origin",
    "Pyribs.C19.effGrad_sub",
    "Pyribs.C19.adam_first_step_dir",
    "Pyribs.C19.adam_first_tell",
    "Pyribs.C19.restart_iff",
    "Pyribs.C19.restart_recentres",
    "Pyribs.C19.no_restart_keeps_counters",
    "Pyribs.C19.nonvacuous",
    "Pyribs.C19.nonvacuous_gop",
    "Pyribs.C19.nonvacuous_gop_bounded",
    "Pyribs.C19.nonvacuous_gop_initial",
    "Pyribs.C19.nonvacuous_adam_l2",
]
RULE = ("random call sequences over ask_dqd / tell_dqd / ask / tell (also before any gradients, repeated, and with "
        "mis-shaped Jacobians), archive additions and clears, for solution dimension 1..4, measure dimension 1..3, "
        "batch 1..5; Jacobians dyadic random, zero, rank-one, with zero rows; normalisation on/off; selection rule "
        "mu/filter; restart rule basic / no_improvement / every k; scripted check_stop; feedback (status) vectors "
        "including all-zero ones; gradient optimizer spy / gradient_ascent / adam (grad_opt_kwargs l2_coeff in {0, 1/100, 1/2, 10}, lr in "
        "{1/8, 1/20, 1/100}). Strata: gae-exact (un-normalised, "
        "<= 1 parent: bit-exact), gae-rounded (normalised and/or several parents, adam), gae-zero-parents (nothing "
        "inserted under every restart rule), gae-refusal (calls before gradients), gop (GradientOperatorEmitter, "
        "measure gradients on/off, isotropic / iso_line_dd, solution bounds none / box / wide / one-sided mix / tight / "
        "tight around x0 with sigma up to 2 so that ask_dqd clips the perturbed parents often; every row of ask() is "
        "held to clip(row RETURNED by the preceding ask_dqd + combination of the supplied gradients); a third of the "
        "cases are configured with initial_solutions instead of x0 and call ask() out of order at every protocol "
        "position: first on a pre-populated archive, after the start-up iteration without a new ask_dqd, between "
        "ask_dqd and tell_dqd -- the initial solutions may only come out while the archive is empty at that very call). A case is non-trivial when it contains an ask after "
        "gradients with a non-zero Jacobian or a tell after gradients; counted once per distinct operation list.")
PARTIAL = [
    "the Euclidean norms used by normalisation are supplied to the model (they are square roots); the model checks "
    "that each supplied value is an admissible norm (|n^2 - sum g^2| <= 2^-40 sum g^2) and the theorems hold for any "
    "supplied norm",
    "recombination weights (log(np + 1/2) - log(i), normalised) are supplied; the theorems need only that they are "
    "non-negative and sum to one (mean_in_hull); their exact values belong to C18's CMA weight model",
    "Adam: the model carries the L2 term (effGrad) and the first step after a reset in closed form "
    "(theta + lr*e/(|e| + eps'), e = mean - theta - l2_coeff*theta, eps' = eps/sqrt(1-beta2) supplied); later steps "
    "(moment estimates, square roots) are held to a harness-side restatement of the documented rule evaluated on the "
    "input interval gradient +- (a few ulps of the magnitudes entering mean - theta), widened by 1e-8 -- the tolerance "
    "follows the rule's sensitivity near a vanishing gradient -- with coordinates whose second-moment estimate is "
    "non-zero but below 1e-6 excluded as a tie zone; the full rule is C18's",
    "a restart that is due while the archive is still empty raises IndexError from sample_elites (after the counter "
    "and theta moved); the property's restart clause ('re-centres on a current elite') presupposes a non-empty archive "
    "whenever a restart is due, as C10's quantifier does -- modelled as an explicit error outcome, not a violation",
    "GradientOperatorEmitter defines no tell of its own (inherits the no-op): the refusal clause is applied to its "
    "ask only",
]
ASSUMPTIONS = [
    "constructor keywords whose generated value equals the documented default (DOC_DEFAULTS, read off the signatures / "
    "docstrings) are left out of the call, so the defaults themselves run while oracle and model use the documented "
    "values; the arrays handed to tell / tell_dqd are overwritten with garbage right after the call",
    "GradientOperatorEmitter.ask() called between a new ask_dqd() and its tell_dqd() while the stored gradients belong "
    "to a batch of another size (e.g. the empty start-up batch followed by a real ask_dqd) fails inside NumPy "
    "(broadcast ValueError for >= 2 parents, an empty batch for 1) instead of raising RuntimeError; the property's "
    "refusal clause speaks about gradients never supplied, so this call is neither generated nor judged",
    "a negative sigma_g in GradientOperatorEmitter is invalid input (a negative step size / standard deviation); the "
    "generators use sigma_g > 0 and no clause is read on negative values",
    "grad_opt_kwargs reach the optimizer unchanged (l2_coeff in {0, 1/100, 1/2, 10} with lr in {1/8, 1/20, 1/100}); "
    "Adam's other hyper-parameters stay at their documented defaults (beta1 0.9, beta2 0.999, epsilon 1e-8)",
    "GradientOperatorEmitter's coefficient noise is reproduced from the seed (np.random.default_rng(seed), the "
    "ask_dqd draws first, then normal(0, sigma_g, (batch, 1 + measure_dim)) per ask)",
    "the elite a restart re-centres on is replayed by sample_elites(1) on a deep copy of the archive taken just "
    "before tell",
    "dyadic inputs of bounded size make every float operation of the exact stratum exact, so float = rational",
]
TECHNIQUE = "Lean 4 model + theorems; lock-step correspondence with spy strategy / ranker / optimizer; property oracle"
LEVEL_TEXT = ("proof: span membership of every emitted solution, the non-negative objective coefficient, the refusal "
              "automaton over every call sequence, the zero-parent fixpoint, the segment property of the gradient-ascent "
              "step and restart re-centring are Lean theorems about the Dqd model; norms and recombination weights are "
              "supplied parameters (admissibility checked); the model is tied to the code by lock-step comparison, exact "
              "on dyadic inputs and within 2^-40 otherwise")

TOL = Fraction(1, 2**40)
TOL32 = Fraction(1, 2**18)          # float32 archives: the solution point and every emitted row are float32
CUR = {"tol": TOL}                  # tolerance of the case being run (set by run_case)
NP_DT = {"f32": np.float32, "f64": np.float64}


def fr(x):
    return Fraction(float(x))


def frow(r):
    return [Fraction(float(v)) for v in r]


def rowtok(r):
    return ",".join(q(v) for v in r) if len(r) else "-"


def F(s):
    return Fraction(s)


def rows_f(rows):
    return np.array([[float(Fraction(v)) for v in r] for r in rows], dtype=np.float64)


def close(a, b, scale, exact):
    """a, b: lists of Fractions. exact -> equality; else |a-b| <= TOL*scale"""
    if len(a) != len(b):
        return False, None
    worst = Fraction(0)
    for x, y in zip(a, b):
        d = abs(x - y)
        if exact:
            if d != 0:
                return False, d
        else:
            r = d / (CUR["tol"] * scale)
            worst = max(worst, r)
            if r > 1:
                return False, r
    return True, worst


def kvs(resp):
    return dict(t.split("=", 1) for t in resp.split()[1:] if "=" in t)


def parse_rows(resp):
    toks = resp.split()
    if not toks or toks[0] != "ok":
        return None
    return [[Fraction(t) for t in r.split(",")] for r in toks[1:]]


# --------------------------------------------------------------------------
# spies


def make_spies():
    from ribs.emitters.opt import EvolutionStrategyBase, GradientOptBase
    from ribs.emitters.rankers import RankerBase

    class SpyES(EvolutionStrategyBase):

        def __init__(self, sigma0, solution_dim, batch_size=None, seed=None, dtype=np.float64,  # pylint: disable=super-init-not-called
                     lower_bounds=-np.inf, upper_bounds=np.inf, script=None):
            self.batch_size = batch_size
            self.solution_dim = solution_dim
            self.dtype = dtype
            self.script = script
            self.log = []

        def reset(self, x0):
            self.log.append(("reset", np.array(x0, dtype=np.float64).copy()))

        def check_stop(self, ranking_values):
            self.log.append(("check_stop", np.array(ranking_values).copy()))
            return bool(self.script["stop"])

        def ask(self, batch_size=None):
            return np.array(self.script["coeffs"], dtype=self.dtype)

        def tell(self, ranking_indices, ranking_values, num_parents):
            self.log.append(("tell", np.array(ranking_indices).copy(), int(num_parents)))

    class SpyRanker(RankerBase):

        def __init__(self, seed=None, script=None):
            super().__init__(seed)
            self.script = script
            self.log = []

        def rank(self, emitter, archive, data, add_info):
            perm = np.array(self.script["perm"], dtype=np.int64)
            vals = np.arange(len(perm), dtype=np.float64)[::-1].copy()
            out = np.empty(len(perm))
            out[perm] = vals  # values in solution order, descending along the ranking
            self.log.append(("rank", data["solution"].copy()))
            return perm, out

        def reset(self, emitter, archive):
            self.log.append(("reset",))

    class SpyOpt(GradientOptBase):

        def __init__(self, theta0, lr):  # pylint: disable=super-init-not-called
            self._lr = lr
            self.log = []
            self._theta = None
            self.reset(theta0)

        @property
        def theta(self):
            return self._theta

        def reset(self, theta0):
            self._theta = np.array(theta0, copy=True)
            self.log.append(("reset", self._theta.copy()))

        def step(self, gradient):
            g = np.asarray(gradient)
            self.log.append(("step", g.copy()))
            self._theta = self._theta + self._lr * g

    return SpyES, SpyRanker, SpyOpt


REAL_ES = ["cma_es", "sep_cma_es", "lm_ma_es", "openai_es"]


def make_recorder(name):
    """A user subclass of a REAL evolution strategy that records what passes through the documented hooks (the
    coefficient rows `ask` hands out, the arguments of `tell`, `reset`, the outcome of `check_stop`) and otherwise
    behaves like its base class; `check_stop` additionally honours the scripted stop flag."""
    from ribs.emitters import opt as O
    base = {"cma_es": O.CMAEvolutionStrategy, "sep_cma_es": O.SeparableCMAEvolutionStrategy,
            "lm_ma_es": O.LMMAEvolutionStrategy, "openai_es": O.OpenAIEvolutionStrategy}[name]

    class Recorder(base):

        def __init__(self, *a, script=None, **kw):
            self.script = script
            self.log = []
            self.last = None
            super().__init__(*a, **kw)

        def reset(self, x0):
            self.log.append(("reset", np.array(x0, dtype=np.float64).copy()))
            return super().reset(x0)

        def check_stop(self, ranking_values):
            real = bool(super().check_stop(ranking_values))
            self.log.append(("check_stop", np.array(ranking_values).copy(), real))
            return real or bool(self.script["stop"])

        def ask(self, batch_size=None):
            out = super().ask() if batch_size is None else super().ask(batch_size)
            self.last = np.array(out, dtype=np.float64, copy=True)
            return out

        def tell(self, ranking_indices, ranking_values, num_parents):
            self.log.append(("tell", np.array(ranking_indices).copy(), int(num_parents)))
            return super().tell(ranking_indices, ranking_values, num_parents)

    Recorder.__name__ = Recorder.__qualname__ = "Recording" + base.__name__
    return Recorder


def probe_outputs(e, have_grad, n, md, batch):
    """What an emitter emits from here on -- run on a throw-away deep copy: the solution point, (after supplying one
    fixed Jacobian when it holds none) a batch of ask(), and the solution point after telling that batch back."""
    outs = []
    try:
        outs.append(np.array(e.ask_dqd(), dtype=np.float64))
        if not have_grad:
            jac = (np.arange((md + 1) * n, dtype=np.float64).reshape(1, md + 1, n) - 2.0) / 4
            e.tell_dqd(outs[0].copy(), np.zeros(1), np.zeros((1, md)), jac,
                       {"status": np.zeros(1), "value": np.zeros(1)})
        outs.append(np.array(e.ask(), dtype=np.float64))
        e.tell(outs[1].copy(), np.zeros(batch), np.zeros((batch, md)),
               {"status": np.ones(batch, dtype=np.int32), "value": np.zeros(batch)})
        outs.append(np.array(e.ask_dqd(), dtype=np.float64))
        outs.append(np.array(e.ask(), dtype=np.float64))
    except Exception as ex:  # pylint: disable=broad-except
        outs.append(type(ex).__name__)
    return outs


def same_outputs(a, b):
    if len(a) != len(b):
        return False
    for x, y in zip(a, b):
        if isinstance(x, str) or isinstance(y, str):
            if not (isinstance(x, str) and isinstance(y, str) and x == y):
                return False
        elif x.shape != y.shape or not np.array_equal(x, y, equal_nan=True):
            return False
    return True


class RefAdam:
    """The documented optimizer, restated: Adam (Kingma & Ba) on the *descent* gradient -g + l2_coeff * theta,
    i.e. gradient ascent on f(theta) - l2_coeff/2 * |theta|^2 (the L2 term pulls theta TOWARD the origin)."""

    def __init__(self, n, lr, l2, beta1=0.9, beta2=0.999, eps=1e-8):
        self.n, self.lr, self.l2, self.b1, self.b2, self.eps = n, lr, l2, beta1, beta2, eps
        self.reset()

    def reset(self):
        self.m = np.zeros(self.n)
        self.v = np.zeros(self.n)
        self.t = 0

    def peek(self, theta, g):
        """(theta', m', v') of one step from the current moments, without committing it"""
        d = -np.asarray(g, dtype=np.float64) + self.l2 * theta
        t = self.t + 1
        a = self.lr * np.sqrt(1 - self.b2**t) / (1 - self.b1**t)
        m = self.b1 * self.m + (1 - self.b1) * d
        v = self.b2 * self.v + (1 - self.b2) * (d * d)
        return theta - a * m / (np.sqrt(v) + self.eps), m, v

    def step(self, theta, g):
        out, self.m, self.v = self.peek(theta, g)
        self.t += 1
        return out

    def envelope(self, theta, g, delta):
        """The rule is evaluated on the input interval g +- delta (delta: the rounding the emitter's float
        computation of `mean - theta` may carry): coordinate-wise (lowest, highest) admissible theta'.  Near a
        vanishing gradient the rule is steep (first step: lr*g/(|g| + eps')), so a residue of 1e-17 in g moves
        theta by 1e-10; the tolerance has to follow that sensitivity instead of being a constant."""
        outs = [self.peek(theta, np.asarray(g) + s * delta)[0] for s in (-1.0, -0.5, 0.0, 0.5, 1.0)]
        return np.min(outs, axis=0), np.max(outs, axis=0)


ADAM_EPS_PRIME = Fraction(float(1e-8 / np.sqrt(1 - 0.999)))   # eps / sqrt(1 - beta2): supplied to the model


# Documented defaults of the two constructors (signatures / docstrings).  A keyword whose value in the case EQUALS the
# documented default is left out of the call: the default itself runs, the oracle and the model use the documented value.
DOC_DEFAULTS = {
    "GradientOperatorEmitter": {"initial_solutions": None, "x0": None, "line_sigma": 0.0, "measure_gradients": False,
                                "normalize_grad": False, "epsilon": 1e-8, "operator_type": "isotropic", "bounds": None,
                                "batch_size": 64, "seed": None},
    "GradientArborescenceEmitter": {"ranker": "2imp", "selection_rule": "filter", "restart_rule": "no_improvement",
                                    "grad_opt": "adam", "grad_opt_kwargs": None, "es": "cma_es", "es_kwargs": None,
                                    "normalize_grad": True, "bounds": None, "batch_size": None, "epsilon": 1e-8,
                                    "seed": None},
}


def omit_defaults(cls_name, kwargs):
    out = {}
    for k, v in kwargs.items():
        if k in DOC_DEFAULTS[cls_name]:
            d = DOC_DEFAULTS[cls_name][k]
            same = (v is None and d is None) or (
                v is not None and d is not None and type(v) in (bool, int, float, str) and
                type(d) in (bool, int, float, str) and isinstance(v, bool) == isinstance(d, bool) and v == d)
            if same:
                continue
        out[k] = v
    return out


def trash(handed, ctx):
    """The caller reuses the arrays it handed to tell / tell_dqd (solution, objective, measures, jacobian, add_info):
    they are overwritten with garbage; no later ask() / solution point may depend on them."""
    for a in handed:
        for arr in (a.values() if isinstance(a, dict) else [a]):
            if isinstance(arr, np.ndarray) and arr.flags.writeable and arr.size:
                arr[...] = 777 if arr.dtype.kind in "iu" else -4321.75
    ctx.count("handed-arrays-overwritten")


def rank_weights(k):
    """the recombination weights the emitter computes for k parents (same formula, float64)"""
    w = np.log(k + 0.5) - np.log(np.arange(1, k + 1))
    return w / np.sum(w)


def rule_tok(rule):
    if rule == "basic":
        return "basic"
    if rule == "no_improvement":
        return "noimp"
    return f"every:{int(rule)}"


# --------------------------------------------------------------------------
# GradientArborescenceEmitter


def run_gae(case, ctx):
    from ribs.archives import GridArchive
    from ribs.emitters import GradientArborescenceEmitter
    SpyES, SpyRanker, SpyOpt = make_spies()
    n, md, batch = case["n"], case["mdim"], case["batch"]
    m = md + 1
    exact = case["exact"]
    arch = GridArchive(solution_dim=n, dims=[3] * md, ranges=[(-4, 4)] * md, seed=case["aseed"],
                       **({"dtype": np.float32} if case.get("sd") == "f32" else {}))
    script = {"stop": False, "coeffs": [[0.0] * m] * batch, "perm": list(range(batch))}
    hold = {}

    real_es = case.get("es", "spy") != "spy"     # a real evolution strategy (recording subclass) instead of the spy
    EsCls = make_recorder(case["es"]) if real_es else SpyES

    def mk_es(**kw):
        hold["es"] = EsCls(script=script, **kw)
        return hold["es"]

    def mk_rk(seed=None):
        hold["rk"] = SpyRanker(seed, script=script)
        return hold["rk"]

    okind, lr_s = case["opt"].split(":")
    lr = float(Fraction(lr_s))

    def mk_opt(theta0, lr):
        hold["opt"] = SpyOpt(theta0, lr)
        return hold["opt"]

    x0 = [float(Fraction(v)) for v in case["x0"]]
    eps = float(Fraction(case["eps"]))
    l2 = float(Fraction(case.get("l2", "0")))
    # l2_coeff = 0 is AdamOpt's documented default: grad_opt_kwargs is then left out altogether
    gkw = {"l2_coeff": l2} if (okind == "adam" and "l2" in case and l2 != 0) else None
    em = GradientArborescenceEmitter(arch, **omit_defaults("GradientArborescenceEmitter", dict(
        x0=x0, sigma0=1.0, lr=lr, ranker=mk_rk, es=mk_es,
        grad_opt=mk_opt if okind == "spy" else {"ascent": "gradient_ascent", "adam": "adam"}[okind],
        grad_opt_kwargs=gkw, selection_rule=case["sel"], restart_rule=case["rule"], batch_size=batch,
        normalize_grad=bool(case["norm"]), epsilon=eps, seed=case["seed"])))
    ref_adam = RefAdam(n, lr, l2) if okind == "adam" else None
    es, rk = hold["es"], hold["rk"]
    drv = Driver("dqd")
    try:
        drv.ask(f"gae new n={n} m={m} batch={batch} sel={case['sel']} rule={rule_tok(case['rule'])} "
                f"norm={1 if case['norm'] else 0} eps={q(Fraction(eps))} "
                f"opt={'ext' if okind == 'adam' else 'ascent:' + q(Fraction(lr))} x0={rowtok(frow(x0))}")
        have_grad = False
        zero_jac = False
        jst_gae = jac_last = None
        adam_fresh = True   # no step since the last reset
        last_ask = prev_ask = None

        def untouched(twin, what_call, where):
            """After a REFUSED call: the emitter must go on exactly like `twin`, the deep copy taken just before
            the call (same solution point, same batches -- hence the same generator state --, same step)."""
            got = probe_outputs(copy.deepcopy(em), have_grad, n, md, batch)
            want = probe_outputs(twin, have_grad, n, md, batch)
            ctx.count("gae:refused-call-vs-twin")
            if same_outputs(got, want):
                return None
            k = next((i for i, (x, y) in enumerate(zip(got, want))
                      if not same_outputs([x], [y])), min(len(got), len(want)))
            names = ["ask_dqd()", "ask()", "ask_dqd() after telling that batch back", "the next ask()"]
            return Failure("oracle", f"{where}: after the refused {what_call} the emitter no longer behaves like a copy "
                           f"taken just before the call: {names[min(k, 3)]} returns "
                           f"{got[k].tolist() if k < len(got) and not isinstance(got[k], str) else got[k:k + 1]}, the "
                           f"copy returns {want[k].tolist() if k < len(want) and not isinstance(want[k], str) else want[k:k + 1]}")

        def theta_now():
            t = em.ask_dqd()
            if not isinstance(t, np.ndarray) or t.shape != (1, n):
                raise ValueError(f"ask_dqd returned shape {getattr(t, 'shape', None)}")
            return np.array(t[0], dtype=np.float64, copy=True)

        # magnitude of the values that went into the solution point since it was last SET (x0 / an elite): a step
        # such as theta + lr*(mean - theta) with |theta| = 1e144 and a small mean cancels, and what is left differs
        # from the exact value by rounding at the OLD magnitude; every comparison of the solution point is relative
        # to this running scale (it stays near 1 unless huge gradients were branched along and told back)
        hist = {"scale": Fraction(1)}

        def scale_of(*vecs):
            s = hist["scale"]
            for v in vecs:
                for x in v:
                    s = max(s, abs(x))
            return s

        for step, op in enumerate(case["ops"]):
            o = op["op"]
            where = f"op#{step} {o}"
            if o == "cfg":
                continue
            if o == "arch_add":
                rows = rows_f(op["arows"])
                arch.add(rows, np.array([float(Fraction(v)) for v in op["obj"]]), rows_f(op["meas"]))
                continue
            if o == "arch_clear":
                arch.clear()
                continue
            if o == "ask_dqd":
                try:
                    th = theta_now()
                except Exception as ex:  # pylint: disable=broad-except
                    return Failure("oracle", f"{where}: {type(ex).__name__}: {ex}")
                mth = parse_rows(drv.ask("gae askdqd"))[0]
                ok, _ = close(frow(th), mth, scale_of(mth), exact)
                if not ok:
                    return Failure("corr", f"{where}: theta impl={th.tolist()} model={[float(v) for v in mth]}")
                continue
            if o == "tell_dqd":
                jac = rows_f(op["jac"])
                if op.get("poison") and jac.ndim == 2 and jac.size:
                    # a non-finite entry: the call must be refused like a mis-shaped Jacobian
                    kind_, j_, k_ = op["poison"]
                    jac[j_ % jac.shape[0], k_ % jac.shape[1]] = {"nan": np.nan, "inf": np.inf, "-inf": -np.inf}[kind_]
                th = theta_now()
                twin = copy.deepcopy(em) if (jac.shape != (m, n) or not np.all(np.isfinite(jac))) else None
                try:
                    arr = jac.reshape(1, jac.shape[0], -1) if jac.ndim == 2 else jac
                    handed = [th[None].copy(), np.zeros(1), np.zeros((1, md)), arr.copy(),
                              {"status": np.zeros(1), "value": np.zeros(1)}]
                    try:
                        em.tell_dqd(*handed)
                    finally:
                        trash(handed, ctx)
                    res = "ok"
                except ValueError:
                    res = "err value"
                except Exception as ex:  # pylint: disable=broad-except
                    return Failure("oracle", f"{where}: raised {type(ex).__name__}: {str(ex)[:80]}")
                well = jac.shape == (m, n)
                if well and not np.all(np.isfinite(jac)):
                    # a non-finite gradient (no counterpart in the model's rationals): nothing may be left of the call
                    if res == "ok":
                        ctx.count("gae:non-finite-jacobian-accepted(case-ends)")
                        return None
                    f_ = untouched(twin, f"tell_dqd (Jacobian with a {op['poison'][0]} entry)", where)
                    if f_ is not None:
                        return f_
                    ctx.count("gae:tell_dqd-refused(non-finite)")
                    continue
                if well and res != "ok":
                    return Failure("oracle", f"{where}: well-shaped Jacobian rejected")
                if not well and res == "ok":
                    return Failure("oracle", f"{where}: Jacobian of shape {jac.shape} accepted for (1+{md}, {n})")
                if not well:
                    f_ = untouched(twin, f"tell_dqd (Jacobian of shape {jac.shape})", where)
                    if f_ is not None:
                        return f_
                    ctx.count("gae:tell_dqd-refused(shape)")
                norms = [fr(v) for v in np.linalg.norm(jac, axis=1)] if well else []
                mres = drv.ask(f"gae telldqd norms={rowtok(norms)} tol={q(TOL)} " +
                               (";".join(rowtok(frow(r)) for r in jac) if len(jac) else "-"))
                if mres.split()[0:1] != res.split()[0:1] or (res != "ok" and mres != res):
                    return Failure("corr", f"{where}: impl={res} model={mres}")
                if res == "ok":
                    if "normok=1" not in mres:
                        return Failure("corr", f"{where}: supplied norms rejected by the model ({mres})")
                    have_grad = True
                    zero_jac = not np.any(jac)
                    # the gradients as the emitter must now hold them, on exact rationals: g / (|g| + epsilon) with the
                    # Euclidean norm of the SUPPLIED (float64) gradient when normalisation is on, else g itself
                    jst_gae = []
                    jac_last = jac
                    for g in jac:
                        d_ = (fr(np.linalg.norm(g)) + Fraction(eps)) if case["norm"] else Fraction(1)
                        jst_gae.append([fr(v) / d_ for v in g])
                    if case["norm"] and any(np.any(g) and float(np.linalg.norm(g)) > 1e18 for g in jac):
                        ctx.count("gae:normalised-gradient-with-norm>1e18")
                    ctx.count("gae:tell_dqd")
                continue
            if o == "ask":
                script["coeffs"] = [[float(Fraction(v)) for v in r] for r in op["coeffs"]]
                th0 = theta_now()
                twin = copy.deepcopy(em) if not have_grad else None
                try:
                    out = em.ask()
                    res = "ok"
                except RuntimeError:
                    res = "err runtime"
                except Exception as ex:  # pylint: disable=broad-except
                    return Failure("oracle", f"{where}: raised {type(ex).__name__}: {str(ex)[:80]}")
                if real_es and res == "ok":
                    # the coefficient rows the real strategy handed to the emitter in this ask()
                    script["coeffs"] = [[float(v) for v in r] for r in es.last]
                # oracle: refusal before gradients, state unchanged
                if not have_grad:
                    if res != "err runtime":
                        return Failure("oracle", f"{where}: ask() before tell_dqd() did not raise RuntimeError")
                    mst = dict(t.split("=", 1) for t in drv.ask("gae state").split())
                    if not np.array_equal(theta_now(), th0) or em.itrs != int(mst["itrs"]):
                        return Failure("oracle", f"{where}: refused ask changed the emitter's state")
                    f_ = untouched(twin, "ask() before any gradients", where)
                    if f_ is not None:
                        return f_
                    ctx.count("gae:ask-refused")
                elif res != "ok":
                    return Failure("oracle", f"{where}: ask() refused although gradients were supplied")
                mres = drv.ask("gae ask " + " ".join(rowtok(frow(r)) for r in script["coeffs"]))
                if res != "ok":
                    if mres != res:
                        return Failure("corr", f"{where}: impl={res} model={mres}")
                    continue
                out = np.asarray(out)
                if out.shape != (batch, n):
                    return Failure("oracle", f"{where}: ask returned shape {out.shape}, expected {(batch, n)}")
                if zero_jac and not all(np.array_equal(r, th0) for r in out):
                    return Failure("oracle", f"{where}: zero Jacobian, yet ask() != theta")
                mrows = parse_rows(mres)
                for i in range(batch):
                    # ---- oracle: the row is theta + sum_j c_j * (stored gradient j), read on exact rationals
                    cf = [Fraction(v) for v in script["coeffs"][i]]
                    tf = frow(th0)
                    terms = [[cf[j] * jst_gae[j][k] for j in range(m)] for k in range(n)]
                    want = [tf[k] + sum(terms[k]) for k in range(n)]
                    sc_ = max([Fraction(1)] + [abs(v) for v in tf] + [abs(t) for tk in terms for t in tk])
                    if not close(frow(out[i]), want, sc_, exact and not case["norm"])[0]:
                        return Failure("oracle", f"{where}: row {i} = {out[i].tolist()} is not theta + sum_j c_j * g_j"
                                       f"{'/(|g_j| + epsilon)' if case['norm'] else ''} = {[float(v) for v in want]} "
                                       f"(theta {th0.tolist()}, coefficients {script['coeffs'][i]}, gradient norms "
                                       f"{[float(np.linalg.norm(g)) for g in jac_last]})")
                    ok, w = close(frow(out[i]), mrows[i], max(sc_, scale_of(mrows[i])),
                                  exact and not case["norm"])
                    if not ok:
                        return Failure("corr", f"{where}: row {i} impl={out[i].tolist()} "
                                       f"model={[float(v) for v in mrows[i]]} (theta + sum c_j J_j)")
                    if w:
                        ctx.extra["max_err_over_tol"] = max(ctx.extra.get("max_err_over_tol", 0.0), float(w))
                prev_ask, last_ask = last_ask, out
                ctx.count("gae:ask" + (":real-es" if real_es else ""))
                continue
            if o == "tell":
                if real_es and have_grad and last_ask is None:
                    # a real strategy that was never asked has no batch to be told about (tell() without any ask() is
                    # out of protocol in a way the property does not speak about; histories shortened by the shrinker
                    # get here): not called, not judged
                    ctx.count("gae:tell-skipped(real strategy never asked)")
                    continue
                status = [int(v) for v in op["status"]]
                perm = [int(v) for v in op["perm"]]
                script["perm"] = perm
                script["stop"] = bool(op["stop"])
                how = op.get("sols")
                if how == "last" and last_ask is not None:
                    sols = np.array(last_ask, dtype=np.float64)
                elif how == "prev" and prev_ask is not None:
                    # ask() was called twice; the caller evaluates and tells the FIRST batch
                    sols = np.array(prev_ask, dtype=np.float64)
                    ctx.count("gae:told=batch-of-the-ask-before-last")
                elif isinstance(how, str) and how.startswith(("clip:", "round:")) and last_ask is not None:
                    # the caller post-processed what ask() returned before evaluating it; what is told (and ranked) are
                    # the solutions that were evaluated: projected into a box around the origin / rounded to a grid
                    r_ = float(Fraction(how.split(":")[1]))
                    sols = np.array(last_ask, dtype=np.float64)
                    sols = np.clip(sols, -r_, r_) if how.startswith("clip:") else np.round(sols / r_) * r_
                    if not np.array_equal(sols, np.asarray(last_ask, dtype=np.float64)):
                        ctx.count("gae:told!=asked(" + how.split(":")[0] + ")")
                else:
                    sols = rows_f(op["srows"])
                th0 = theta_now()
                twin = copy.deepcopy(em) if not have_grad else None
                itrs0, rst0 = em.itrs, em.restarts
                snap = copy.deepcopy(arch)
                cur = [frow(r) for r in arch.data("solution")]
                elite = None if arch.empty else snap.sample_elites(1)["solution"][0]
                nes, nrk = len(es.log), len(rk.log)
                nopt = len(hold["opt"].log) if okind == "spy" else 0
                try:
                    handed = [sols.copy(), np.zeros(batch), np.zeros((batch, md)),
                              {"status": np.array(status), "value": np.zeros(batch)}]
                    try:
                        em.tell(*handed)
                    finally:
                        trash(handed, ctx)
                    res = "ok"
                except RuntimeError:
                    res = "err runtime"
                except IndexError:
                    res = "err index"
                except Exception as ex:  # pylint: disable=broad-except
                    return Failure("oracle", f"{where}: raised {type(ex).__name__}: {str(ex)[:80]}")
                th1 = theta_now()
                hist_next = hist["scale"]
                if have_grad:
                    hist["scale"] = max([hist["scale"]] + [abs(v) for v in frow(th0)] + [abs(v) for v in frow(th1)] +
                                        [abs(fr(v)) for r in sols for v in r])
                    # after a restart the point is re-centred on an elite, i.e. set exactly -- but the comparisons of
                    # THIS tell (gradient step, theta before the re-centring) still live at the old magnitude
                    hist_next = Fraction(1) if em.restarts != rst0 else hist["scale"]
                new = sum(1 for s in status if s != 0)
                npar = new if case["sel"] == "filter" else batch // 2
                # ---- oracle
                if not have_grad:
                    if res != "err runtime":
                        return Failure("oracle", f"{where}: tell() before tell_dqd() did not raise RuntimeError")
                    if not np.array_equal(th1, th0) or em.itrs != itrs0 or em.restarts != rst0:
                        return Failure("oracle", f"{where}: refused tell changed the emitter's state")
                    f_ = untouched(twin, "tell() before any gradients", where)
                    if f_ is not None:
                        return f_
                    ctx.count("gae:tell-refused")
                else:
                    if res == "err runtime":
                        return Failure("oracle", f"{where}: tell() refused although gradients were supplied")
                    rule = case["rule"]
                    fires = ((itrs0 + 1) % rule == 0) if isinstance(rule, int) else (
                        new == 0 if rule == "no_improvement" else False)
                    # (a real strategy's own stop criteria count as well: recorded by the subclass)
                    real_stop = any(l[2] for l in es.log[nes:] if l[0] == "check_stop" and len(l) > 2)
                    if real_stop:
                        ctx.count("gae:real-strategy-check_stop-fired")
                    should = bool(op["stop"]) or fires or real_stop
                    if res == "ok":
                        if em.itrs != itrs0 + 1:
                            return Failure("oracle", f"{where}: itrs {itrs0} -> {em.itrs}")
                        if (em.restarts - rst0) != (1 if should else 0):
                            return Failure("oracle", f"{where}: restart expected={should} restarts {rst0} -> "
                                           f"{em.restarts}")
                        tl = [l for l in es.log[nes:] if l[0] == "tell"]
                        if len(tl) != 1 or tl[0][2] != npar:
                            return Failure("oracle", f"{where}: strategy told num_parents="
                                           f"{[l[2] for l in tl]}, rule gives {npar}")
                        resets = [l for l in es.log[nes:] if l[0] == "reset"]
                        if should:
                            if frow(th1) not in cur:
                                return Failure("oracle", f"{where}: restart: theta={th1.tolist()} is not the solution "
                                               f"of a current elite")
                            if len(resets) != 1 or np.any(resets[0][1] != 0) or \
                                    len([l for l in rk.log[nrk:] if l[0] == "reset"]) != 1:
                                return Failure("oracle", f"{where}: restart did not reset the coefficient "
                                               f"distribution to mean 0 / the ranker exactly once")
                            ctx.count("gae:restart")
                        else:
                            if resets:
                                return Failure("oracle", f"{where}: coefficient distribution reset without a restart")
                            if npar == 0:
                                if not np.array_equal(th1, th0):
                                    return Failure("oracle", f"{where}: no solution selected and no restart, yet theta "
                                                   f"moved {th0.tolist()} -> {th1.tolist()}", key="D11")
                                ctx.count("gae:zero-parents-fixpoint")
                            else:
                                w = rank_weights(npar)
                                par = [frow(sols[perm[r]]) for r in range(npar)]
                                mean = [sum(fr(w[r]) * par[r][k] for r in range(npar)) for k in range(n)]
                                a, b, c = frow(th0), frow(th1), mean
                                sc = scale_of(a, b, c)
                                if okind in ("spy", "ascent") and 0 < lr <= 1:
                                    for k in range(n):
                                        lo_, hi_ = min(a[k], c[k]) - CUR["tol"] * sc, max(a[k], c[k]) + CUR["tol"] * sc
                                        if not lo_ <= b[k] <= hi_:
                                            return Failure("oracle", f"{where}: theta'[{k}]={float(b[k])} not between "
                                                           f"theta={float(a[k])} and the mean={float(c[k])}")
                                    if lr == 1 and not close(b, c, sc, False)[0]:
                                        return Failure("oracle", f"{where}: lr=1 but theta' is not the weighted mean")
                                if okind in ("spy", "ascent"):
                                    # the clause itself: a gradient-ascent step toward the rank-weighted mean of the
                                    # solutions selected in THIS tell (weights ln(mu + 1/2) - ln(i), normalised)
                                    want = [a[k] + Fraction(lr) * (c[k] - a[k]) for k in range(n)]
                                    if not close(b, want, sc, exact and npar <= 1)[0]:
                                        return Failure("oracle", f"{where}: theta' = {[float(v) for v in b]} is not "
                                                       f"theta + lr*(rank-weighted mean of the {npar} selected solutions "
                                                       f"- theta) = {[float(v) for v in want]} (theta "
                                                       f"{[float(v) for v in a]}, mean {[float(v) for v in c]}, lr {lr})")
                                    ctx.count(f"gae:step-toward-mean:parents={min(npar, 3)}{'+' if npar > 3 else ''}")
                                if okind == "adam" and adam_fresh:
                                    # first step after a reset: every coordinate moves along the ascent gradient of
                                    # f(theta) - l2/2 |theta|^2, i.e. along (mean - theta) - l2 * theta
                                    for k in range(n):
                                        d, g = b[k] - a[k], (c[k] - a[k]) - Fraction(l2) * a[k]
                                        if abs(g) > Fraction(1, 1000) * sc and d * g <= 0:
                                            return Failure("oracle", f"{where}: first Adam step (l2_coeff={l2}) moves "
                                                           f"theta[{k}] {float(a[k])} -> {float(b[k])}, against the "
                                                           f"ascent gradient (mean - theta) - l2*theta = {float(g)}")
                                ctx.count("gae:step")
                # ---- oracle (Adam): the documented update rule, L2 regulariser included, on every step
                eff = None
                if okind == "adam" and have_grad and res != "err runtime" and npar > 0:
                    w_ = rank_weights(npar)
                    par_ = [frow(sols[perm[r]]) for r in range(npar)]
                    mean_ = [sum(fr(w_[r]) * par_[r][k] for r in range(npar)) for k in range(n)]
                    eff = [(mean_[k] - fr(th0[k])) - Fraction(l2) * fr(th0[k]) for k in range(n)]
                    g_nom = np.array([float(mean_[k]) - th0[k] for k in range(n)])
                    # rounding the emitter's own float computation of `mean - theta` (a weighted sum of npar rows,
                    # then a subtraction) may carry: a few ulps of the magnitudes involved
                    mag = np.array([max([abs(th0[k])] + [abs(float(par_[r][k])) for r in range(npar)])
                                    for k in range(n)])
                    adam_delta = 16 * (npar + 2) * np.finfo(np.float64).eps * np.maximum(mag, 1e-300)
                    lo_env, hi_env = ref_adam.envelope(th0, g_nom, adam_delta)
                    want = ref_adam.step(th0, g_nom)
                    if res == "ok" and em.restarts == rst0:
                        for k in range(n):
                            tolk = 1e-8 * max(1.0, abs(th0[k]), abs(want[k]))
                            if ref_adam.v[k] != 0 and np.sqrt(ref_adam.v[k]) < 1e-3:
                                # every gradient since the reset was tiny in this coordinate: the moments themselves
                                # are rounding-dominated (tie zone); the step is at most lr in size, nothing is read
                                ctx.count("gae:adam-coordinate-in-tie-zone")
                                continue
                            if not lo_env[k] - tolk <= th1[k] <= hi_env[k] + tolk:
                                return Failure("oracle", f"{where}: Adam step {ref_adam.t} since the last reset "
                                               f"(lr={lr}, l2_coeff={l2}): theta[{k}] {th0[k]!r} -> {th1[k]!r}, the "
                                               f"documented rule (ascent on f - l2/2 |theta|^2) gives {want[k]!r} "
                                               f"(admissible for the gradient +- {adam_delta[k]:.3g}: "
                                               f"[{lo_env[k]!r}, {hi_env[k]!r}])")
                            if hi_env[k] - lo_env[k] > tolk:
                                ctx.count("gae:adam-sensitive-coordinate")
                        ctx.count("gae:adam-step-checked" + (":l2>0" if l2 > 0 else ""))
                if okind == "adam" and have_grad and res == "ok" and em.restarts != rst0:
                    ref_adam.reset()
                # ---- model
                wts = [] if npar == 0 else [fr(v) for v in rank_weights(npar)]
                ext = "-"
                # Adam's first step after a reset is computed by the model itself -- unless some coordinate of the
                # ascent gradient is (nearly) zero: there the closed form is steep (slope lr/eps'), the exact rational
                # and the rounded float gradient give visibly different steps, and the model's theta would drift away
                # from the implementation's; such steps are supplied like every later Adam step
                adam_model_first = okind == "adam" and adam_fresh and \
                    (eff is None or all(abs(e) >= Fraction(1, 1000) for e in eff))
                if okind == "adam" and adam_fresh and not adam_model_first:
                    ctx.count("gae:adam-first-step-supplied(tie-zone)")
                if adam_model_first:
                    # the model computes it itself (closed form with the L2 term)
                    ext = f"adam1:{q(Fraction(lr))}:{q(Fraction(l2))}:{q(ADAM_EPS_PRIME)}"
                elif okind == "adam":
                    ext = rowtok(frow(th1))
                mres = drv.ask(
                    f"gae tell status={','.join(map(str, status)) or '-'} ranking={','.join(map(str, perm)) or '-'} "
                    f"weights={rowtok(wts)} "
                    f"stop={1 if (op['stop'] or any(l[2] for l in es.log[nes:] if l[0] == 'check_stop' and len(l) > 2)) else 0} "
                    f"elite={'none' if elite is None else rowtok(frow(elite))} ext={ext} sols " +
                    " ".join(rowtok(frow(r)) for r in sols))
                if res != "ok":
                    if mres != res:
                        return Failure("corr", f"{where}: impl={res} model={mres}")
                else:
                    if not mres.startswith("ok"):
                        return Failure("corr", f"{where}: impl=ok model={mres}")
                    d = kvs(mres)
                    if int(d["restarted"]) != em.restarts - rst0 or int(d["np"]) != npar:
                        return Failure("corr", f"{where}: control impl=(restart {em.restarts - rst0}, np {npar}) "
                                       f"model={mres}")
                    if okind == "spy" and d["grad"] != "-":
                        steps = [l for l in hold["opt"].log[nopt:] if l[0] == "step"]
                        mg = [Fraction(t) for t in d["grad"].split(",")]
                        if len(steps) != 1:
                            return Failure("corr", f"{where}: optimizer stepped {len(steps)} times, model: once")
                        ok, _ = close(frow(steps[0][1]), mg, scale_of(mg, frow(th0)), exact and npar <= 1)
                        if not ok:
                            return Failure("corr", f"{where}: gradient step impl={steps[0][1].tolist()} "
                                           f"model={[float(v) for v in mg]} (mean - theta)")
                # state after the call (also after an IndexError: counter and theta as the code leaves them)
                st = dict(t.split("=", 1) for t in drv.ask("gae state").split())
                mth = [Fraction(t) for t in st["theta"].split(",")]
                if have_grad and okind == "adam" and res != "ok":
                    pass  # theta after a failed restart under Adam is not predicted
                elif adam_model_first and have_grad and npar > 0 and em.restarts == rst0:
                    # closed form vs float Adam: continuous except near a vanishing gradient (tie zone excluded)
                    for k in range(n):
                        if abs(fr(th1[k]) - mth[k]) > Fraction(1, 10**9) * max(1, abs(mth[k])):
                            return Failure("corr", f"{where}: first Adam step theta[{k}] impl={th1[k]!r} "
                                           f"model={float(mth[k])!r} (theta + lr*e/(|e| + eps'), e = mean - theta - l2*theta)")
                    ctx.count("gae:adam-first-step-vs-model")
                else:
                    ok, w = close(frow(th1), mth, scale_of(mth, frow(th0)), exact and npar <= 1)
                    if not ok:
                        return Failure("corr", f"{where}: theta after tell impl={th1.tolist()} "
                                       f"model={[float(v) for v in mth]} ({mres})")
                if int(st["itrs"]) != em.itrs or int(st["restarts"]) != em.restarts:
                    return Failure("corr", f"{where}: counters impl=({em.itrs},{em.restarts}) "
                                   f"model=({st['itrs']},{st['restarts']})")
                if okind == "adam" and have_grad and res == "ok":
                    if em.restarts != rst0:
                        adam_fresh = True
                    elif npar > 0:
                        adam_fresh = False
                if okind == "adam" and have_grad and res != "ok" and npar > 0:
                    adam_fresh = False
                hist["scale"] = hist_next
                ctx.count("gae:tell" + (":real-es" if real_es else ""))
                continue
            raise ValueError(f"unknown op {o}")
        return None
    finally:
        drv.close()


# --------------------------------------------------------------------------
# GradientOperatorEmitter


def run_gop(case, ctx):
    from ribs.archives import GridArchive
    from ribs.emitters import GradientOperatorEmitter
    n, md, batch = case["n"], case["mdim"], case["batch"]
    m = md + 1
    mg, norm = case["mg"], case["norm"]
    arch = GridArchive(solution_dim=n, dims=[3] * md, ranges=[(-4, 4)] * md, seed=case["aseed"],
                       **({"dtype": np.float32} if case.get("sd") == "f32" else {}))
    x0 = [float(Fraction(v)) for v in case["x0"]]
    sig, sg, lsig = (float(Fraction(case[k])) for k in ("sigma", "sigma_g", "line_sigma"))
    eps = float(Fraction(case["eps"]))
    line = case["line"]
    barg = None
    if case.get("bounds") is not None:
        barg = [None if b is None else tuple(None if v is None else float(Fraction(v)) for v in b)
                for b in case["bounds"]]
    init = None
    if case.get("init"):
        init = [[float(Fraction(v)) for v in r] for r in case["init"]]
    em = GradientOperatorEmitter(arch, **omit_defaults("GradientOperatorEmitter", dict(
        sigma=sig, sigma_g=sg, x0=None if init is not None else x0, initial_solutions=init, line_sigma=lsig,
        measure_gradients=bool(mg), normalize_grad=bool(norm), epsilon=eps,
        operator_type="iso_line_dd" if line else "isotropic", bounds=barg, batch_size=batch, seed=case["seed"])))
    lo = [None if v == -np.inf else fr(v) for v in em.lower_bounds]
    hi = [None if v == np.inf else fr(v) for v in em.upper_bounds]

    def clipf(row):
        """np.clip on exact rationals"""
        out = []
        for k, v in enumerate(row):
            if lo[k] is not None and v < lo[k]:
                v = lo[k]
            if hi[k] is not None and v > hi[k]:
                v = hi[k]
            out.append(v)
        return out

    shadow = np.random.default_rng(case["seed"])
    drv = Driver("dqd")
    try:
        drv.ask(f"gop new n={n} m={m} mg={1 if mg else 0} sg={q(Fraction(float(np.float64(sg))))} "
                f"norm={1 if norm else 0} eps={q(Fraction(eps))} "
                f"lo={','.join('-inf' if v is None else q(v) for v in lo)} "
                f"hi={','.join('inf' if v is None else q(v) for v in hi)} "
                f"init={'none' if init is None else ';'.join(rowtok(frow(r)) for r in init)}")
        have_grad = False
        parents = None
        jac = None
        asked_since = 0
        last_out = None
        init_clipped = None if init is None else [clipf(frow(r)) for r in init]

        def observe():
            """tell the model what `archive.empty` is at the coming call; True in the start-up situation"""
            drv.ask(f"gop observe {1 if arch.empty else 0}")
            return bool(arch.empty) and init is not None
        for step, op in enumerate(case["ops"]):
            o = op["op"]
            where = f"op#{step} {o}"
            if o == "cfg":
                continue
            if o == "arch_add":
                rows = rows_f(op["arows"])
                arch.add(rows, np.array([float(Fraction(v)) for v in op["obj"]]), rows_f(op["meas"]))
                continue
            if o == "add_last":
                # the caller evaluates the batch the last ask() handed out and inserts it
                if last_out is not None and len(last_out):
                    meas_ = np.zeros((len(last_out), md))
                    cols = min(n, md)
                    meas_[:, :cols] = np.clip(last_out[:, :cols], -4, 4)
                    arch.add(last_out, -np.sum(last_out**2, axis=1), meas_)
                continue
            if o == "ask_dqd":
                startup = observe()
                try:
                    p = em.ask_dqd()
                except Exception as ex:  # pylint: disable=broad-except
                    return Failure("oracle", f"{where}: raised {type(ex).__name__}: {str(ex)[:80]}")
                if startup:
                    # documented: no solutions while the archive is empty and initial_solutions are configured
                    if not isinstance(p, np.ndarray) or p.shape != (0, n):
                        return Failure("oracle", f"{where}: start-up (empty archive, initial_solutions): ask_dqd returned "
                                       f"shape {getattr(p, 'shape', None)}, expected no solutions (0, {n})")
                    if drv.ask("gop askdqd") != "ok":
                        return Failure("corr", f"{where}: model's start-up ask_dqd returned rows")
                    parents = np.zeros((0, n))
                    ctx.count("gop:startup-ask_dqd")
                    continue
                shadow.normal(loc=0.0, scale=np.float64(sig), size=(batch, n))
                if line:
                    shadow.normal(loc=0.0, scale=lsig, size=(batch, 1))
                # `parents` is what the CALLER sees: the rows ask_dqd returned (copied at once); every later
                # ask() must branch from exactly these rows
                parents = np.array(p, dtype=np.float64, copy=True)
                prow = [frow(r) for r in parents]
                if any(clipf(r) != r for r in prow):
                    return Failure("oracle", f"{where}: ask_dqd returned a row outside the emitter's bounds")
                if any(v in (lo[k], hi[k]) for r in prow for k, v in enumerate(r)):
                    ctx.count("gop:ask_dqd-parent-on-a-bound")
                mret = parse_rows(drv.ask("gop askdqd " + " ".join(rowtok(r) for r in prow)))
                if mret != prow:
                    return Failure("corr", f"{where}: model's ask_dqd does not return the (clipped) rows it was given")
                continue
            if o == "tell_dqd":
                if parents is None:
                    continue
                j = np.array([rows_f(jr) for jr in op["jacs"][:len(parents)]], dtype=np.float64).reshape(-1, m, n)
                if 0 < len(j) < len(parents):
                    j = np.concatenate([j] + [j[-1:]] * (len(parents) - len(j)))
                try:
                    handed = [parents.copy(), np.zeros(len(parents)), np.zeros((len(parents), md)), j.copy(),
                              {"status": np.zeros(len(parents)), "value": np.zeros(len(parents))}]
                    try:
                        em.tell_dqd(*handed)
                    finally:
                        trash(handed, ctx)
                except Exception as ex:  # pylint: disable=broad-except
                    return Failure("oracle", f"{where}: raised {type(ex).__name__}: {str(ex)[:80]}")
                toks = []
                for jj in j:
                    nrm = [fr(v) for v in np.linalg.norm(jj, axis=1)]
                    toks.append(";".join(rowtok(frow(r)) for r in jj) + "|" + rowtok(nrm))
                mres = drv.ask(f"gop telldqd tol={q(TOL)} " + " ".join(toks))
                if mres != "ok normok=1":
                    return Failure("corr", f"{where}: impl=ok model={mres}")
                have_grad, jac, asked_since = True, j, 0
                continue
            if o == "tell":
                try:
                    handed = [np.zeros((batch, n)), np.zeros(batch), np.zeros((batch, md)),
                              {"status": np.zeros(batch), "value": np.zeros(batch)}]
                    r = em.tell(*handed)
                    trash(handed, ctx)
                except Exception as ex:  # pylint: disable=broad-except
                    return Failure("corr", f"{where}: tell raised {type(ex).__name__} (model: inherited no-op)")
                drv.ask("gop tell")
                continue
            if o == "ask":
                startup = observe()
                if not startup and have_grad and parents is not None and jac is not None and len(jac) != len(parents):
                    # ask() between a new ask_dqd and its tell_dqd while the stored gradients belong to a batch of
                    # another size (e.g. the empty start-up batch): no gradients were supplied for THESE parents; the
                    # code then fails inside NumPy (broadcast ValueError) or returns an empty batch.  Out of protocol
                    # in a way the property does not speak about: not called, not judged (see ASSUMPTIONS).
                    ctx.count("gop:ask-skipped(stored-gradients-of-another-batch-size)")
                    continue
                try:
                    out = em.ask()
                    res = "ok"
                except RuntimeError:
                    res = "err runtime"
                except Exception as ex:  # pylint: disable=broad-except
                    if have_grad and asked_since > 0:
                        return Failure("oracle", f"{where}: second ask() after one tell_dqd() raised "
                                       f"{type(ex).__name__}: {str(ex)[:60]} (the first ask overwrote the stored "
                                       f"Jacobian)", key="D26-gop-ask-twice")
                    return Failure("oracle", f"{where}: raised {type(ex).__name__}: {str(ex)[:80]}")
                if startup:
                    # the one documented exception: the archive is empty NOW and initial_solutions are configured
                    if res != "ok" or not isinstance(out, np.ndarray) or out.shape != (len(init), n) or \
                            [frow(r) for r in out] != init_clipped:
                        return Failure("oracle", f"{where}: empty archive: ask() did not return the configured "
                                       f"initial_solutions clipped to the bounds ({res}, "
                                       f"{getattr(out, 'tolist', lambda: None)() if res == 'ok' else None})")
                    mrows = parse_rows(drv.ask("gop ask"))
                    if mrows != init_clipped:
                        return Failure("corr", f"{where}: start-up ask impl=initial solutions model={mrows}")
                    last_out = np.array(out, dtype=np.float64, copy=True)
                    ctx.count("gop:startup-ask")
                    continue
                handed_out_init = res == "ok" and init is not None and isinstance(out, np.ndarray) and \
                    out.shape == (len(init), n) and [frow(r) for r in out] == init_clipped
                if not have_grad:
                    if res != "err runtime":
                        return Failure("oracle", f"{where}: ask() before any tell_dqd() on a non-empty archive did not "
                                       f"raise RuntimeError" + (": it handed out the initial_solutions although the "
                                                                "archive holds elites" if handed_out_init else ""))
                    if drv.ask("gop ask") != "err runtime":
                        return Failure("corr", f"{where}: model did not refuse")
                    ctx.count("gop:ask-refused" + (":initial_solutions-configured" if init is not None else ""))
                    continue
                if res != "ok":
                    return Failure("oracle", f"{where}: ask() refused although gradients were supplied")
                asked_since += 1
                out = np.asarray(out, dtype=np.float64)
                if out.shape != parents.shape:
                    return Failure("oracle", f"{where}: non-empty archive: ask returned shape {out.shape} but the last "
                                   f"ask_dqd returned {parents.shape[0]} parent(s) -- every row must be a returned parent "
                                   f"plus a combination of the supplied gradients" +
                                   ("; it handed out the initial_solutions although the archive holds elites"
                                    if handed_out_init else ""))
                last_out = np.array(out, dtype=np.float64, copy=True)
                if len(parents) == 0:
                    if drv.ask("gop ask") != "ok":
                        return Failure("corr", f"{where}: empty batch of gradients: model returned rows")
                    ctx.count("gop:ask-after-empty-batch")
                    continue
                noise = None
                if mg:
                    noise = shadow.normal(loc=0.0, scale=np.float64(sg), size=(len(parents), m))
                    mres = drv.ask("gop ask " + " ".join(rowtok(frow(r)) for r in noise))
                else:
                    mres = drv.ask("gop ask")
                mrows = parse_rows(mres)
                if mrows is None:
                    return Failure("corr", f"{where}: impl=ok model={mres}")
                # oracle: the objective coefficient is non-negative (Jacobians whose objective gradient is the only
                # one with a non-zero first coordinate make it directly observable)
                if mg and op.get("probe_obj"):
                    for i in range(len(parents)):
                        g0 = jac[i][0][0]
                        if g0 != 0 and not np.any(jac[i][1:, 0]):
                            d0 = fr(out[i][0]) - fr(parents[i][0])
                            if d0 * fr(g0) < 0:
                                return Failure("oracle", f"{where}: row {i} moved against the objective gradient: "
                                               f"objective coefficient negative")
                            ctx.count("gop:objective-coefficient-observed")
                exact = (not mg) and (not norm) and case["exact"]
                orow = [frow(r) for r in out]
                if any(clipf(r) != r for r in orow):
                    return Failure("oracle", f"{where}: ask returned a row outside the emitter's bounds")
                # the gradients as stored (normalised if requested), on exact rationals
                jst = []
                for i in range(len(parents)):
                    rows_ = []
                    for g in jac[i]:
                        d = (fr(np.linalg.norm(g)) + Fraction(eps)) if norm else Fraction(1)
                        rows_.append([fr(v) / d for v in g])
                    jst.append(rows_)
                for i in range(len(parents)):
                    jmax = max([Fraction(0)] + [abs(v) for row in jst[i] for v in row])
                    cmax = max([abs(fr(z)) for z in noise[i]]) if noise is not None else abs(Fraction(sg))
                    sc = max([Fraction(1), jmax * cmax * m] + [abs(v) for v in orow[i]] +
                             [abs(v) for v in frow(parents[i])])
                    pr = frow(parents[i])
                    # ---- oracle (no replayed randomness): the row must be clip(RETURNED parent + combination)
                    if not mg:
                        want = clipf([pr[k] + jst[i][0][k] * Fraction(sg) for k in range(n)])
                        ok, _ = close(orow[i], want, sc, exact)
                        if not ok:
                            return Failure("oracle", f"{where}: row {i} = {out[i].tolist()} is not clip(parent returned "
                                           f"by ask_dqd + sigma_g * objective gradient) = {[float(v) for v in want]}; "
                                           f"returned parent {parents[i].tolist()}")
                    else:
                        inside = all((lo[k] is None or orow[i][k] > lo[k]) and (hi[k] is None or orow[i][k] < hi[k])
                                     for k in range(n))
                        if inside:
                            # the final clip was inactive: out - returned parent must lie in the span of the gradients
                            A = np.array([[float(v) for v in row] for row in jst[i]], dtype=np.float64).T  # (n, m)
                            d = np.array([float(orow[i][k] - pr[k]) for k in range(n)])
                            coef = np.linalg.lstsq(A, d, rcond=None)[0]
                            resid = float(np.linalg.norm(A @ coef - d))
                            if resid > (1e-5 if case.get("sd") == "f32" else 1e-9) * float(sc):
                                return Failure("oracle", f"{where}: row {i} minus the parent returned by ask_dqd is not "
                                               f"in the span of the supplied gradients (residual {resid:.3g}); returned "
                                               f"parent {parents[i].tolist()}, row {out[i].tolist()}")
                            ctx.count("gop:span-checked")
                    # ---- model (coefficients reproduced from the seed when measure gradients are on)
                    ok, w = close(orow[i], mrows[i], sc, exact)
                    if not ok:
                        return Failure("corr", f"{where}: row {i} impl={out[i].tolist()} "
                                       f"model={[float(v) for v in mrows[i]]} "
                                       f"(clip(returned parent + |c0| grad f + sum c_j grad m_j))")
                    if w:
                        ctx.extra["max_err_over_tol"] = max(ctx.extra.get("max_err_over_tol", 0.0), float(w))
                    if any(v in (lo[k], hi[k]) for k, v in enumerate(pr)):
                        ctx.count("gop:ask-from-clipped-parent")
                ctx.count("gop:ask")
                continue
            raise ValueError(f"unknown op {o}")
        return None
    finally:
        drv.close()


def run_case(case, ctx):
    warnings.simplefilter("ignore")
    CUR["tol"] = TOL32 if case.get("sd") == "f32" else TOL
    return run_gae(case, ctx) if case["emitter"] == "gae" else run_gop(case, ctx)


# --------------------------------------------------------------------------
# generators


def dy(rng, hi=16, den=4):
    return f"{rng.randint(-hi, hi)}/{den}"


def gen_jac(rng, m, n, kind):
    if kind == "zero":
        return [["0"] * n for _ in range(m)]
    if kind == "rank1":
        g = [rng.randint(-4, 4) for _ in range(n)]
        return [[f"{rng.randint(-3, 3) * v}/2" for v in g] for _ in range(m)]
    if kind == "zerorow":
        rows = [[dy(rng, 8, 2) for _ in range(n)] for _ in range(m)]
        rows[rng.randrange(m)] = ["0"] * n
        return rows
    if kind == "probe":  # only the objective gradient has a first coordinate
        rows = [[dy(rng, 8, 2) for _ in range(n)] for _ in range(m)]
        rows[0][0] = rng.choice(["1", "-2", "3/2"])
        for r in rows[1:]:
            r[0] = "0"
        return rows
    if kind == "small":   # gradient norms comparable with (non-default) normalisation epsilons
        return [[f"{rng.randint(-8, 8)}/256" for _ in range(n)] for _ in range(m)]
    if kind in ("huge32", "huge64", "tiny", "eps-scale"):
        # finite gradients far from 1: the Euclidean norm must be taken in float64 whatever the archive's dtype
        #  huge32   entries 1e15 .. 1e30: the squared norm overflows float32 from ~1.8e19 on
        #  huge64   entries 1e100 .. 1e150: the squared norm is still finite in float64
        #  tiny     entries ~1e-30: `+ epsilon` dominates the divisor
        #  eps-scale entries of the order of the normalisation epsilon itself
        lo_e, hi_e = {"huge32": (15, 30), "huge64": (100, 150), "tiny": (-32, -28), "eps-scale": (-9, -1)}[kind]
        rows = []
        for _ in range(m):
            e = rng.randint(lo_e, hi_e)
            row = [rng.choice([1.0, -2.0, 3.0, 0.6, -0.8, 1.5, 0.0, 0.25]) * 10.0**(e - rng.choice([0, 0, 1]))
                   for _ in range(n)]
            if not any(row):
                row[rng.randrange(n)] = 10.0**e
            rows.append(row)
        if rng.random() < 0.2:
            rows[rng.randrange(m)] = [0.0] * n
        return [[q(Fraction(v)) for v in r] for r in rows]
    if kind == "float":
        return [[repr(rng.gauss(0, 2)) for _ in range(n)] for _ in range(m)]
    return [[dy(rng, 8, 2) for _ in range(n)] for _ in range(m)]


def as_frac_strings(rows):
    return [[q(Fraction(float(v))) if not isinstance(v, str) or "." in v or "e" in v else v for v in r] for r in rows]


def gen_arch_add(rng, n, md):
    k = rng.randint(1, 3)
    return {"op": "arch_add", "arows": [[dy(rng) for _ in range(n)] for _ in range(k)],
            "obj": [str(rng.randint(-5, 5)) for _ in range(k)],
            "meas": [[dy(rng, 14, 4) for _ in range(md)] for _ in range(k)]}


def gen_gae(rng, stratum):
    n, md, batch = rng.randint(1, 4), rng.randint(1, 3), rng.randint(1, 5)
    m = md + 1
    exact = stratum in ("gae-exact", "gae-zero-parents", "gae-refusal")
    norm = (rng.random() < 0.6) if stratum == "gae-rounded" else False
    if stratum == "gae-rounded":
        opt = rng.choice(["spy:1/2", "spy:1", "spy:3/10", "ascent:1/4", "ascent:1/10", "adam:1/8", "adam:1/100",
                          "adam:1/20"])
    else:
        opt = rng.choice(["spy:1/2", "spy:1", "spy:1/4", "spy:3/4", "ascent:1/2", "ascent:1/4", "ascent:1"])
    rule = rng.choice(["basic", "no_improvement", 1, 2, 3])
    if stratum == "gae-zero-parents":
        rule = rng.choice(["basic", "basic", 2, 3, 5, "no_improvement"])
    sel = rng.choice(["filter", "filter", "mu"])
    if exact and sel == "mu" and batch // 2 > 1:
        batch = rng.choice([1, 2, 3])  # at most one selected parent keeps the exact stratum exact
    case = {"emitter": "gae", "n": n, "mdim": md, "batch": batch, "exact": exact, "norm": norm, "opt": opt,
            "sel": sel, "rule": rule,
            "eps": rng.choice(["1/1024", "1/100000000", "1/8"]),
            "x0": [rng.choice(["1", "-1", "1/2", "3", "-5/4", "2"]) for _ in range(n)],
            "seed": rng.randrange(1 << 30), "aseed": rng.randrange(1 << 30)}
    if opt.startswith("adam"):
        # grad_opt_kwargs={"l2_coeff": c}: none, small, moderate, large (the regulariser dominates)
        case["l2"] = rng.choice(["0", "1/100", "1/2", "10"])
    ops = []
    if rng.random() < 0.8 or stratum == "gae-zero-parents":
        ops.append(gen_arch_add(rng, n, md))
    nops = rng.randint(4, 14)
    have = False

    def tell_op(count=None):
        r = rng.random()
        if count is not None:   # exactly `count` solutions inserted
            status = [rng.choice([1, 2]) if i < count else 0 for i in range(batch)]
            rng.shuffle(status)
        elif stratum == "gae-zero-parents" or r < 0.3:
            status = [0] * batch
        elif exact:
            status = [0] * batch
            status[rng.randrange(batch)] = rng.choice([1, 2])
        else:
            status = [rng.choice([0, 0, 1, 2]) for _ in range(batch)]
        perm = list(range(batch))
        rng.shuffle(perm)
        op = {"op": "tell", "status": status, "perm": perm, "stop": rng.random() < (0.05 if stratum == "gae-zero-parents" else 0.15),
              "srows": [[dy(rng) for _ in range(n)] for _ in range(batch)]}
        if rng.random() < 0.4:
            op["sols"] = "last"
        return op

    if stratum == "gae-refusal":
        for _ in range(rng.randint(1, 4)):
            ops.append(rng.choice([{"op": "ask", "coeffs": [[dy(rng, 8, 2) for _ in range(m)] for _ in range(batch)]},
                                   tell_op(), {"op": "ask_dqd"}]))
    for _ in range(nops):
        r = rng.random()
        if not have and stratum != "gae-refusal" and r < 0.85:
            r = 0.0
        if r < 0.22:
            kind = rng.choice(["dyadic", "dyadic", "zero", "rank1", "zerorow"] +
                              (["float", "float", "small"] if stratum == "gae-rounded" else []))
            jac = gen_jac(rng, m, n, kind)
            if kind == "float":
                jac = as_frac_strings([[float(v) for v in r_] for r_ in jac])
            if rng.random() < 0.08:  # mis-shaped
                jac = jac[:-1] if rng.random() < 0.5 and m > 1 else [r_ + ["1"] for r_ in jac]
            else:
                have = True
            ops.append({"op": "tell_dqd", "jac": jac})
        elif r < 0.50:
            ops.append({"op": "ask", "coeffs": [[dy(rng, 8, 2) for _ in range(m)] for _ in range(batch)]})
        elif r < 0.82:
            if stratum == "gae-rounded" and have and batch >= 3 and rng.random() < 0.35:
                # the number of selected solutions goes DOWN between tells (many, then fewer but still >= 2)
                hi_ = rng.randint(3, batch)
                ops.append(tell_op(hi_))
                ops.append(tell_op(rng.randint(2, hi_ - 1)))
            else:
                ops.append(tell_op())
        elif r < 0.90:
            ops.append({"op": "ask_dqd"})
        elif r < 0.97:
            ops.append(gen_arch_add(rng, n, md))
        else:
            ops.append({"op": "arch_clear"})
    ops.append({"op": "ask_dqd"})
    case["ops"] = [{"op": "cfg", "tag": f"gae/{n}/{md}/{batch}/{opt}/{rule}/{case['sel']}/{norm}/{case['seed']}"}] + ops
    return case


def gen_gae_real(rng, quick=False):
    """GradientArborescenceEmitter around a REAL evolution strategy (the default cma_es most often; a recording
    subclass hands the harness the coefficient rows), driven through protocol interleavings in which what is told is
    not simply what the last ask() returned under the gradients supplied last:

      canonical   ask_dqd, tell_dqd, ask, tell(the batch as returned)
      post        ... ask, tell(the batch projected into a box / rounded to a grid by the caller before evaluation)
      regrad      ask_dqd, tell_dqd(J1), ask, ask_dqd, tell_dqd(J2), tell   (gradients re-supplied between ask and tell)
      twice       ... ask, ask, tell(first batch | second batch)
      refused     ask_dqd, tell_dqd(J1), tell_dqd(non-finite or mis-shaped: refused), ask, tell
      reuse       ask, tell   (no new gradients)
      replaced    ask, tell(other solutions altogether)

    The step clause is read on the solutions TOLD; after every refused call the emitter is compared with a copy taken
    just before the call."""
    md = rng.randint(1, 3)
    m = md + 1
    n = rng.randint(1, 4)
    es = rng.choice(["cma_es", "cma_es", "cma_es", "cma_es", "sep_cma_es", "lm_ma_es", "openai_es", "spy"])
    if quick and es in ("sep_cma_es", "lm_ma_es"):
        # numba compiles every native strategy per process and dtype (2-6 s each): the quick tier runs the default
        # strategy (and OpenAI-ES, which is plain NumPy) on float64 archives, the thorough tier all of them
        es = "cma_es"
    batch = rng.randint(1, 6)
    if es == "lm_ma_es":
        batch = rng.randint(1, m - 1)       # batch_size < dimension of the coefficient space (= is C18's finding D50)
    elif es == "openai_es":
        batch = rng.choice([2, 4, 6])       # mirror sampling (the strategy's default) needs an even batch
    opt = rng.choice(["spy:1/2", "spy:1", "spy:1/4", "ascent:1/2", "ascent:1/4", "ascent:1", "ascent:1/10"])
    rule = rng.choice(["basic", "basic", "no_improvement", 2, 3])
    sel = rng.choice(["filter", "filter", "mu"])
    norm = rng.random() < 0.5
    case = {"emitter": "gae", "n": n, "mdim": md, "batch": batch, "exact": False, "norm": norm, "opt": opt,
            "sel": sel, "rule": rule, "es": es, "eps": rng.choice(["1/1024", "1/100000000", "1/8"]),
            "x0": [rng.choice(["1", "-1", "1/2", "3", "-5/4", "2"]) for _ in range(n)],
            "seed": rng.randrange(1 << 30), "aseed": rng.randrange(1 << 30)}
    if rng.random() < 0.2 and not (quick and es == "cma_es"):
        case["sd"] = "f32"
    jac_ = lambda: gen_jac(rng, m, n, rng.choice(["dyadic", "dyadic", "dyadic", "rank1", "zerorow"]))
    ask_ = lambda: {"op": "ask", "coeffs": [[dy(rng, 8, 2) for _ in range(m)] for _ in range(batch)]}

    def tell_(sols):
        status = [rng.choice([0, 1, 2]) for _ in range(batch)]
        if not any(status) and rng.random() < 0.8:
            status[rng.randrange(batch)] = 1
        perm = list(range(batch))
        rng.shuffle(perm)
        return {"op": "tell", "status": status, "perm": perm, "stop": rng.random() < 0.05, "sols": sols,
                "srows": [[dy(rng) for _ in range(n)] for _ in range(batch)]}

    def bad_tell_dqd():
        jac = jac_()
        if rng.random() < 0.6:
            return {"op": "tell_dqd", "jac": jac,
                    "poison": [rng.choice(["nan", "nan", "inf", "-inf"]), rng.randrange(m), rng.randrange(n)]}
        return {"op": "tell_dqd", "jac": jac[:-1] if rng.random() < 0.5 else [r_ + ["1"] for r_ in jac]}

    post_ = lambda: rng.choice(["clip:", "clip:", "round:"]) + rng.choice(["1/4", "1/2", "1", "2"])
    ops = [gen_arch_add(rng, n, md)]
    if rng.random() < 0.4:
        # out of order before any gradients: refused
        for _ in range(rng.randint(1, 2)):
            ops.append(rng.choice([ask_(), tell_("srows")]))
        if rng.random() < 0.5:
            ops.append(bad_tell_dqd())
    have = False
    for _ in range(rng.randint(3, 6)):
        pat = rng.choice(["canonical", "post", "post", "regrad", "regrad", "twice", "refused", "refused", "reuse",
                          "replaced"])
        if not have and pat in ("reuse", "replaced"):
            pat = "canonical"
        if pat in ("reuse", "replaced"):
            ops += [ask_(), tell_("last" if pat == "reuse" else "srows")]
            continue
        ops += [{"op": "ask_dqd"}, {"op": "tell_dqd", "jac": jac_()}]
        have = True
        if pat == "refused":
            ops.append(bad_tell_dqd())
        ops.append(ask_())
        if pat == "regrad":
            ops += [{"op": "ask_dqd"}, {"op": "tell_dqd", "jac": jac_()}]
        if pat == "twice":
            ops.append(ask_())
        ops.append(tell_({"canonical": "last", "post": post_(), "regrad": "last",
                          "twice": rng.choice(["prev", "prev", "last"]),
                          "refused": rng.choice(["last", post_()])}[pat]))
        if rng.random() < 0.15:
            ops.append(gen_arch_add(rng, n, md))
    ops.append({"op": "ask_dqd"})
    case["ops"] = [{"op": "cfg", "tag": f"gae-real/{es}/{n}/{md}/{batch}/{opt}/{rule}/{sel}/{norm}/{case['seed']}"}] + ops
    return case


def gen_gop(rng):
    n, md, batch = rng.randint(1, 4), rng.randint(1, 3), rng.randint(1, 4)
    m = md + 1
    mg = rng.random() < 0.6
    case = {"emitter": "gop", "n": n, "mdim": md, "batch": batch, "mg": mg, "norm": rng.random() < 0.4,
            "line": rng.random() < 0.3, "exact": True,
            "sigma": rng.choice(["0", "0", "1/4", "1/2", "2"]), "sigma_g": rng.choice(["1/2", "1", "2", "1/8"]),
            "line_sigma": rng.choice(["0", "1/2"]), "eps": rng.choice(["1/1024", "1/100000000", "1/8", "1/64"]),
            "x0": [rng.choice(["1", "-1", "1/2", "3", "0"]) for _ in range(n)],
            "seed": rng.randrange(1 << 30), "aseed": rng.randrange(1 << 30)}
    if rng.random() < 0.04:
        case["batch"] = batch = 64      # the documented default batch_size (its keyword is then left out)
    if case["sigma"] != "0" or case["line"]:
        case["exact"] = case["sigma"] in ("0",) and not case["line"]
    # solution bounds: the archive's elites are k/4 with |k| <= 16 and sigma is up to 2, so with these boxes the
    # perturbed parents are clipped often (tight boxes: almost always)
    layout = rng.choice(["none", "box", "box", "onesided", "tight-x0", "tight", "wide"])
    case["layout"] = layout
    if layout == "none":
        case["bounds"] = None
    elif layout == "box":
        case["bounds"] = [["-1", "1"]] * n
    elif layout == "wide":
        case["bounds"] = [["-3", "3"]] * n
    elif layout == "tight":
        case["bounds"] = [["-1/4", "1/4"]] * n
    elif layout == "tight-x0":
        case["bounds"] = [[q(Fraction(v) - Fraction(1, 8)), q(Fraction(v) + Fraction(1, 8))] for v in case["x0"]]
    else:
        cyc = [[None, "1/2"], ["-1/2", None], None, ["-1", "1"], [None, None]]
        case["bounds"] = [cyc[(i + n) % len(cyc)] for i in range(n)]
    if layout != "none" and case["sigma"] == "0" and rng.random() < 0.5:
        case["sigma"] = rng.choice(["1/2", "2"])   # sigma large relative to the box
        case["exact"] = False
    ops = []
    jacs_ = lambda: [gen_jac(rng, m, n, "dyadic") for _ in range(batch)]
    shape = None
    if rng.random() < 0.35:
        # configured with initial_solutions instead of x0; ask() out of order at every protocol position:
        #  A   the emitter is created on a pre-populated archive and ask() comes first (no gradients: must refuse)
        #  B   start-up iteration through ask_dqd (no rows) / tell_dqd (empty batch) / ask (initial solutions),
        #      the batch is inserted, then ask() again without ask_dqd (an empty batch, never the initial solutions)
        #  B2  ask() straight away on the empty archive, the batch is inserted, ask() again (no gradients: refuse)
        #  C   ask() between ask_dqd and tell_dqd and twice after, while the archive is still empty, then non-empty
        case["init"] = [[dy(rng, 12, 4) for _ in range(n)] for _ in range(rng.randint(1, 3))]
        shape = rng.choice(["A", "B", "B", "B2", "C"])
        case["init_shape"] = shape
        if shape == "A":
            ops += [gen_arch_add(rng, n, md), {"op": "ask"}]
            if rng.random() < 0.5:
                ops += [{"op": "tell"}, {"op": "ask"}]
        elif shape == "B":
            ops += [{"op": "ask_dqd"}, {"op": "tell_dqd", "jacs": jacs_()}, {"op": "ask"}, {"op": "add_last"},
                    {"op": "tell"}, {"op": "ask"}]
            if rng.random() < 0.5:
                ops.append({"op": "ask"})
        elif shape == "B2":
            ops += [{"op": "ask"}, {"op": "add_last"}, {"op": "tell"}, {"op": "ask"}]
        else:
            ops += [{"op": "ask_dqd"}, {"op": "ask"}, {"op": "tell_dqd", "jacs": jacs_()}, {"op": "ask"}, {"op": "ask"},
                    {"op": "add_last"}, {"op": "ask"}]
    if shape is None and (case["line"] or rng.random() < 0.6):
        ops.append(gen_arch_add(rng, n, md))
    if shape is None and rng.random() < 0.5:
        ops.append({"op": rng.choice(["ask", "tell"])})
    for _ in range(rng.randint(1, 4)):
        if shape is not None and rng.random() < 0.3:
            ops.append({"op": "ask"})     # out of order: before the iteration's ask_dqd
        ops.append({"op": "ask_dqd"})
        if rng.random() < 0.15:
            ops.append({"op": "ask"})
        kind = rng.choice(["dyadic", "zero", "rank1", "zerorow", "probe", "probe", "small"])
        ops.append({"op": "tell_dqd", "jacs": [gen_jac(rng, m, n, kind) for _ in range(batch)]})
        ops.append({"op": "ask", "probe_obj": kind == "probe"})
        if rng.random() < 0.35:
            ops.append({"op": "ask", "probe_obj": kind == "probe"})
        if rng.random() < 0.5:
            ops.append({"op": "tell"})
        if rng.random() < 0.3:
            ops.append(gen_arch_add(rng, n, md))
    case["ops"] = [{"op": "cfg", "tag": f"gop/{n}/{md}/{batch}/{mg}/{case['norm']}/{case['line']}/{layout}/{shape}/"
                                        f"{case['seed']}"}] + ops
    return case


def scale_kinds(sd):
    return ["huge32", "huge32", "tiny", "eps-scale"] + (["huge64", "huge64"] if sd == "f64" else [])


def make_scale_gen(emitter):
    """gradient-scale x dtype profile: float32 and float64 archives, normalisation on and off, gradients that are
    huge (squared norm beyond float32 / near the float64 limit), tiny, or of the order of epsilon.  The first cases of
    every run are fixed profiles so that each combination occurs on every run."""
    it = {"i": 0}
    forced = [("f32", True, "huge32"), ("f32", False, "huge32"), ("f64", True, "huge64"), ("f64", True, "huge32"),
              ("f32", True, "tiny"), ("f32", True, "eps-scale"), ("f64", False, "huge64"), ("f64", True, "eps-scale")]

    def gen(rng):
        i = it["i"]
        it["i"] += 1
        if i < len(forced):
            sd, norm, kind0 = forced[i]
        else:
            sd, norm = rng.choice(["f32", "f32", "f64"]), rng.random() < 0.6
            kind0 = None
        pick = lambda: kind0 if (kind0 and rng.random() < 0.8) else rng.choice(scale_kinds(sd))
        if emitter == "gae":
            case = gen_gae(rng, "gae-rounded")
            if sd == "f32" or rng.random() < 0.7:
                case["opt"] = rng.choice(["spy:1/2", "spy:1", "ascent:1/4", "spy:1/4"])   # Adam only on float64
                case.pop("l2", None)
            m, n = case["mdim"] + 1, case["n"]
            have = False
            for op in case["ops"]:
                if op["op"] == "tell_dqd" and len(op["jac"]) == m and all(len(r) == n for r in op["jac"]):
                    op["jac"] = gen_jac(rng, m, n, pick())
                    have = True
            if not have:
                case["ops"].insert(1, {"op": "tell_dqd", "jac": gen_jac(rng, m, n, pick())})
                case["ops"].insert(2, {"op": "ask", "coeffs": [[dy(rng, 8, 2) for _ in range(m)]
                                                               for _ in range(case["batch"])]})
        else:
            case = gen_gop(rng)
            while case.get("init") or case["batch"] > 8:
                case = gen_gop(rng)      # x0-configured emitters (inserting 1e150-sized batches is not the point)
            m, n = case["mdim"] + 1, case["n"]
            for op in case["ops"]:
                if op["op"] == "tell_dqd":
                    op["jacs"] = [gen_jac(rng, m, n, pick()) for _ in range(case["batch"])]
                    for a in case["ops"]:
                        a.pop("probe_obj", None)
        case["sd"], case["norm"], case["exact"] = sd, norm, False
        case["eps"] = rng.choice(["1/100000000", "1/100000000", "1/1024", "1/8"])
        case["ops"][0] = {"op": "cfg", "tag": f"scale/{emitter}/{sd}/{norm}/{kind0}/{case['seed']}"}
        return case

    return gen


def make_long_gen():
    """LONG uninterrupted histories of GradientArborescenceEmitter with Adam (restart_rule basic, check_stop never
    true, at least one solution selected in every tell): more than 400 consecutive optimizer steps, every one held to
    the documented rule; every tell is followed by an ask() WITHOUT a new ask_dqd / tell_dqd (the gradients are reused:
    the rows must branch from the solution point as tell left it).  Deterministic; not shrunk (one run takes seconds)."""
    import random as _random
    it = {"i": 0}
    profiles = [("adam:1/100", "0", True), ("adam:1/20", "1/100", False), ("adam:1/8", "0", True),
                ("adam:1/100", "1/2", True)]

    def gen(_rng):
        i = it["i"]
        it["i"] += 1
        opt, l2, norm = profiles[i % len(profiles)]
        rng = _random.Random(1000 + i)
        n, md, batch = 2, 1, 2
        m = md + 1
        case = {"emitter": "gae", "n": n, "mdim": md, "batch": batch, "exact": False, "norm": norm, "opt": opt,
                "l2": l2, "sel": "filter", "rule": "basic", "eps": "1/100000000", "x0": ["3", "-5/4"],
                "seed": 11 + i, "aseed": 5 + i}
        ops = [gen_arch_add(rng, n, md), {"op": "tell_dqd", "jac": gen_jac(rng, m, n, "dyadic")}]
        for k in range(410):
            ops.append({"op": "ask", "coeffs": [[dy(rng, 8, 2) for _ in range(m)] for _ in range(batch)]})
            status = [rng.choice([0, 1, 2]) for _ in range(batch)]
            if not any(status):
                status[rng.randrange(batch)] = 1
            perm = list(range(batch))
            rng.shuffle(perm)
            ops.append({"op": "tell", "status": status, "perm": perm, "stop": False, "sols": "last",
                        "srows": [[dy(rng) for _ in range(n)] for _ in range(batch)]})
            if k % 97 == 50:
                ops.append({"op": "tell_dqd", "jac": gen_jac(rng, m, n, "float" if norm else "dyadic")})
        ops.append({"op": "ask"  , "coeffs": [[dy(rng, 8, 2) for _ in range(m)] for _ in range(batch)]})
        ops.append({"op": "ask_dqd"})
        # the generic shrinker is keyed on "ops"; this stratum is explored with another key so that a failing
        # 800-operation history is reported as it is instead of being re-run hundreds of times
        case["ops"] = [{"op": "cfg", "tag": f"gae-long/{opt}/{l2}/{norm}/{i}"}] + ops
        return case

    return gen


def make_gop_gen():
    """the gop stratum; its first cases are fixed shapes drawn on EVERY run: a one-dimensional solution space with
    several rows, for both measure_gradients settings (where a squeeze or a broadcast collapses (batch, 1) arrays)"""
    it = {"i": 0}

    def gen(rng):
        i = it["i"]
        it["i"] += 1
        case = gen_gop(rng)
        if i < 4:
            while case["n"] != 1 or case["batch"] < 2 or case["batch"] > 8 or case["mg"] != (i % 2 == 0) or \
                    case.get("init"):
                case = gen_gop(rng)
        return case

    return gen


def nontrivial(case):
    have = False
    zero = True
    for op in case["ops"]:
        if op["op"] == "tell_dqd":
            jac = op.get("jac") or [r for j in op.get("jacs", []) for r in j]
            have = True
            zero = all(Fraction(v) == 0 for r in jac for v in r)
        elif op["op"] == "ask" and have and not zero:
            return True
        elif op["op"] == "tell" and have and case["emitter"] == "gae":
            return True
    return False


class _NoCtx:
    """throw-away counters for the warm-up run"""

    def __init__(self):
        self.extra = {}

    def count(self, *_a, **_k):
        pass


def run(ctx):
    rc = lambda case: run_case(case, ctx)
    quick = ctx.quick
    for name, nq, nt, tq, tt in [("gae-exact", 150, 6000, 7, 95), ("gae-rounded", 150, 6000, 7, 95),
                                 ("gae-zero-parents", 80, 3000, 4, 50), ("gae-refusal", 60, 2000, 3, 35)]:
        ctx.explore(name, (lambda rng, name=name: gen_gae(rng, name)), rc, ctx.n(nq, nt), nontrivial=nontrivial,
                    time_budget=tq if quick else tt)
    # (one throw-away case first: numba's per-process compilation of the native strategy is not part of the budget)
    import random as _random
    from core import bounded
    seen_ = set()
    for i_ in range(300):
        c_ = gen_gae_real(_random.Random(i_), quick)
        key_ = (c_["es"], c_.get("sd", "f64"))
        if key_ in seen_ or c_["es"] in ("spy", "openai_es"):
            continue
        seen_.add(key_)
        try:
            bounded(lambda c_=c_: run_case(c_, _NoCtx()), 60, ctx.tier)
        except Exception:  # pylint: disable=broad-except
            pass    # whatever is wrong here is reported by the stratum itself
    ctx.explore("gae-real-es", (lambda rng: gen_gae_real(rng, quick)), rc, ctx.n(120, 5000), nontrivial=nontrivial,
                time_budget=8 if quick else 90)
    ctx.explore("gop", make_gop_gen(), rc, ctx.n(220, 8000), nontrivial=nontrivial, time_budget=9 if quick else 110)
    ctx.explore("gae-long", make_long_gen(), rc, ctx.n(1, 4), nontrivial=nontrivial, shrink_key="no-shrinking",
                time_budget=None)
    ctx.explore("gae-scale", make_scale_gen("gae"), rc, ctx.n(60, 2500), nontrivial=nontrivial,
                time_budget=4 if quick else 45)
    ctx.explore("gop-scale", make_scale_gen("gop"), rc, ctx.n(60, 2500), nontrivial=nontrivial,
                time_budget=4 if quick else 45)


def replay(ctx, case):
    return run_case(case, ctx)
