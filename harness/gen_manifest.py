"""Regenerates MANIFEST.json from the property modules (run by hand after adding a property)."""
import importlib
import json
import os
import sys

VERIF = os.path.dirname(os.path.dirname(os.path.abspath(__file__)))
sys.path.insert(0, os.path.join(VERIF, "harness"))

BASE_CMD = ("cd /repo && /venv/bin/python -m pytest -ra -q -p no:cacheprovider --timeout=900 "
            "--continue-on-collection-errors")

ALL = [f"C{i:02d}" for i in range(1, 21)]


def main():
    checks = []
    na = []
    for pid in ALL:
        path = os.path.join(VERIF, "harness", "props", pid.lower() + ".py")
        if not os.path.exists(path):
            na.append({"property_id": pid, "reason": "check not built yet (work in progress; see DESIGN.md section 4)"})
            continue
        mod = importlib.import_module(f"props.{pid.lower()}")
        checks.append({
            "property_id": pid,
            "quick_cmd": f"./check {pid} quick",
            "thorough_cmd": f"./check {pid} thorough",
            "evidence_file": f"evidence/{pid}.json",
            "replay_cmd_template": f"./check {pid} --replay {{path}}",
            "engine": "lean4-model+correspondence",
            "level_claimed": {
                "category": "proof",
                "text": getattr(mod, "LEVEL_TEXT", "Lean 4 theorems about an executable model of the anchored code, "
                                "for all inputs / histories; the model is tied to /repo by a lock-step correspondence "
                                "check and a property oracle run against the real implementation on every run."),
                "design_ref": f"DESIGN.md section 4, {pid}",
            },
            "level_note": ("Trusted: Lean kernel; axioms propext / Classical.choice / Quot.sound only (audited per run); "
                           "hand-written model tied to the code by the correspondence harness (bounded, generator "
                           "quality bounds what it sees); NumPy/SciPy as libraries. " +
                           ("Parts of the model are REGENERATED from the source tree on every run by the translators "
                            "(lean/PyribsGen/: formulas, decision logic of the transforms, dispatch loops, tell traces, "
                            "RNG sites) and proved equal to the hand-written model (DESIGN.md 7.7): a source change "
                            "that alters them breaks a proof obligation. " if hasattr(mod, "translate") else "") +
                           " ".join("Partial: " + p for p in getattr(mod, "PARTIAL", []))),
            "technique": getattr(mod, "TECHNIQUE", "Lean 4 machine-checked proof over an executable model + "
                                 "lock-step correspondence with the implementation") +
            (" + source-to-Lean translation of the anchored formulas / decision logic re-proved on every run"
             if hasattr(mod, "translate") and "translat" not in getattr(mod, "TECHNIQUE", "") else ""),
        })
    manifest = {
        "version": 1,
        "setup_cmd": "./check --setup",
        "hooks": {
            "guard": "PYRIBS_VERIF_HOOKS",
            "enable": "no hooks are needed: every observable is read through public APIs (or attribute access "
                      "from the harness); the guard name is reserved",
            "baseline_off_cmd": BASE_CMD,
            "source_commits": [],
            "add_only": True,
        },
        "engines": [{
            "name": "lean4-model+correspondence",
            "path": "lean/ (Lean 4 models, proofs, driver) + harness/ (Python correspondence and oracles)",
            "serves_properties": [c["property_id"] for c in checks],
            "kind_free_text": "machine-checked proof in Lean 4 about hand-written executable models; models tied to "
                              "/repo by lock-step differential runs against the real implementation",
        }],
        "checks": checks,
        "not_applicable": na,
        "notes": "See DESIGN.md. Exit codes: 0 held, 1 violation, 2 infrastructure failure.",
    }
    with open(os.path.join(VERIF, "MANIFEST.json"), "w") as f:
        json.dump(manifest, f, indent=1)
    print(f"{len(checks)} checks, {len(na)} not yet claimed")


if __name__ == "__main__":
    main()
