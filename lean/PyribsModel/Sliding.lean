import PyribsModel.Archive
import PyribsModel.GridIndex
/-!
# Sliding — model of `SlidingBoundariesArchive` (C15)

* `SolutionBuffer.add`            ↔ `pushBuf` (bounded FIFO; the per-dimension sorted lists
                                     are `insertionSort` of the buffered coordinates)
* `_remap`                         ↔ `remap` : boundary `j` = sorted measure at rank
  `⌊j·n/d⌋`, last = maximum; bounds = (first, last) boundary, set **before** the
  re-insertion (the behaviour C15 demands); `clear`; batch re-insert of the old elites
  followed by the buffer without its newest entry; single insert of the newest entry.
* `add_single`                     ↔ `addSingle` ; `add` = left fold of `addSingle`.
-/
namespace Pyribs

def insertSorted (x : Rat) : List Rat → List Rat
  | [] => [x]
  | y :: ys => if x ≤ y then x :: y :: ys else y :: insertSorted x ys

def insertionSort : List Rat → List Rat
  | [] => []
  | x :: xs => insertSorted x (insertionSort xs)

/-- boundaries of one dimension from the sorted buffered coordinates:
`b_j = sorted[⌊j·n/d⌋]` for `j < d`, `b_d = sorted[n-1]` -/
def remapBoundaries (sorted : List Rat) (d : Nat) : List Rat :=
  (List.range d).map (fun j => sorted.getD (j * sorted.length / d) 0) ++ [sorted.getD (sorted.length - 1) 0]

structure Sliding where
  geom   : SbGeom
  buffer : List Cand        -- oldest first
  bufCap : Nat
  total  : Nat
  freq   : Nat
  arch   : Arch

namespace Sliding

def new (dims : List Nat) (lo hi : List Rat) (eps : Rat) (bufCap freq : Nat) (offset : Rat)
    (initBnds : List (List Rat)) : Sliding :=
  ⟨⟨dims, initBnds, lo, hi, eps⟩, [], bufCap, 0, freq, Arch.new ⟨1, none, offset⟩ (cells dims)⟩

/-- `SolutionBuffer.add`: pop the oldest when full, append the new entry -/
def pushBuf (buf : List Cand) (cap : Nat) (c : Cand) : List Cand :=
  (if cap ≤ buf.length then buf.tail else buf) ++ [c]

def route (g : SbGeom) (c : Cand) : Nat × Cand := (sbIdx g c.meas, c)

/-- coordinates of dimension `k` of the buffered solutions -/
def column (buf : List Cand) (k : Nat) : List Rat := buf.map (fun c => c.meas.getD k 0)

def newGeom (g : SbGeom) (buf : List Cand) : SbGeom :=
  let bnds := (List.range g.dims.length).map
    (fun k => remapBoundaries (insertionSort (column buf k)) (g.dims.getD k 0))
  { g with
    bnds := bnds
    lo := bnds.map (fun b => b.getD 0 0)
    hi := (bnds.zip g.dims).map (fun (b, d) => b.getD d 0) }

/-- current elites as candidates, in `occupied_list` (store) order -/
def elites (a : Arch) : List Cand :=
  a.store.olist.filterMap (fun i => (a.store.cells i).map Elite.toCand)

/-- `_remap` followed by the bounds refresh; `buf` already contains the newest solution -/
def remap (s : Sliding) (buf : List Cand) : Sliding × (Nat × Rat) :=
  let g' := newGeom s.geom buf
  let old := elites s.arch
  let a0 := s.arch.clear
  let a1 := (a0.addBatch ((old ++ buf.dropLast).map (route g'))).1
  match buf.getLast? with
  | none => ({ s with geom := g', buffer := buf, arch := a1 }, (0, 0))   -- unreachable: buf ≠ []
  | some c =>
    let (a2, fb) := a1.addSingle (route g' c)
    ({ s with geom := g', buffer := buf, arch := a2 }, fb)

def addSingle (s : Sliding) (c : Cand) : Sliding × (Nat × Rat) :=
  let buf := pushBuf s.buffer s.bufCap c
  let total := s.total + 1
  if total % s.freq = 0 then
    let (s', fb) := remap { s with total := total } buf
    (s', fb)
  else
    let (a', fb) := s.arch.addSingle (route s.geom c)
    ({ s with buffer := buf, total := total, arch := a' }, fb)

/-- `add` is documented as `add_single` applied in batch order -/
def addBatch (s : Sliding) (cs : List Cand) : Sliding × List (Nat × Rat) :=
  cs.foldl (fun (acc : Sliding × List (Nat × Rat)) c =>
    let (s', fb) := acc.1.addSingle c
    (s', acc.2 ++ [fb])) (s, [])

/-- `clear()` empties the store and the statistics; buffer, counter and geometry stay -/
def clear (s : Sliding) : Sliding := { s with arch := s.arch.clear }

end Sliding
end Pyribs
