"""C20 — visualisations draw exactly what the archive stores.

Correspondence: under the Agg backend the real plot functions of `ribs.visualize`
are called on random archives; the *data of the artists* they leave on the Axes
(QuadMesh array / coordinates, PolyCollection paths / face colours,
PathCollection offsets / array, LineCollection segments, Line2D data, colour
limits, axis limits) is compared exactly (every float as an exact rational) with
the output of the Lean model `PyribsModel/Viz.lean` for the same stored elites
and archive geometry.

Oracle: the property read directly on the artists against `archive.data()` and
the archive geometry (`boundaries`, `centroids`, bounds), independent of the Lean
model; plus "passing df gives the same artists as passing the archive" and
"neither the archive nor the frame is modified" (checksums before / after).
"""
import atexit
import hashlib
import os
import warnings
from fractions import Fraction

import numpy as np

from core import Driver, Failure, kvs, q, ql

os.environ.setdefault("MPLBACKEND", "Agg")

ID = "C20"
PROOF_MODULES = ["PyribsProofs.C20"]
THEOREMS = [
    "Pyribs.C20.ravel_unravel",
    "Pyribs.C20.unravel_ravel",
    "Pyribs.C20.unravel_inRange",
    "Pyribs.C20.grid_cell_colour",
    "Pyribs.C20.grid_cell_blank_iff",
    "Pyribs.C20.grid_shape",
    "Pyribs.C20.grid1d_cell_colour",
    "Pyribs.C20.transpose_law",
    "Pyribs.C20.transpose_entry",
    "Pyribs.C20.sortIdx_perm",
    "Pyribs.C20.inv_sortIdx",
    "Pyribs.C20.sortIdx_inv",
    "Pyribs.C20.sorted_nondecreasing",
    "Pyribs.C20.sorted_is_centroid",
    "Pyribs.C20.cvt1d_cell_span",
    "Pyribs.C20.cvt1d_cell_contains",
    "Pyribs.C20.cvt1d_cell_colour",
    "Pyribs.C20.scatter_law",
    "Pyribs.C20.scatter_transpose",
    "Pyribs.C20.boundaryLines_law",
    "Pyribs.C20.axisFrac_lo",
    "Pyribs.C20.axisFrac_hi",
    "Pyribs.C20.axisFrac_mono",
    "Pyribs.C20.normYs_frac",
    "Pyribs.C20.parallel_lines",
    "Pyribs.C20.axes_getElem",
    "Pyribs.C20.parallel_position",
    "Pyribs.C20.sortByObj_perm",
    "Pyribs.C20.sortByObj_sorted",
    "Pyribs.C20.clim_contains",
    "Pyribs.C20.clim_attained",
    "Pyribs.C20.clim_explicit",
    "Pyribs.C20.gridHeatmap2_fields",
    "Pyribs.C20.heatmap1d_clim",
    "Pyribs.C20.grid1d_clim",
    "Pyribs.C20.cvt1d_clim",
    "Pyribs.C20.widen_contains",
    "Pyribs.C20.cvt2_cell_colour",
    "Pyribs.C20.nonvacuous_grid",
    "Pyribs.C20.nonvacuous_cvt1d",
    "Pyribs.C20.nonvacuous_scatter_parallel",
]
RULE = ("random archives with dyadic objectives / measures: GridArchive 2-D (dims 1..8 x 1..8) and 1-D (1..8 cells), "
        "CVTArchive 1-D (2..30 custom centroids, shuffled) and 2-D (1..30 custom centroids), SlidingBoundariesArchive "
        "2-D after real remaps, ProximityArchive 2-D, GridArchive 1..4-D and ProximityArchive 1..4-D (one elite, two "
        "elites sharing a coordinate, several: bounds = min / max of the stored measures, so zero-range axes occur; "
        "defect D52) for parallel_axes_plot, with and without measure_order, and in every run archives with 11 / 12 / "
        "23 measures (two-digit measure indices, via archive and via df); content patterns "
        "'one' (exactly one elite), 'sparse' (empty cells), 'full', 'equal' (all objectives equal: degenerate colour "
        "range), 'replaced' (grid / CVT strata: CMA-MAE archive with learning_rate < 1 and a finite threshold_min, "
        "filled one add call at a time by a history in which elites - the best one included - are replaced by LOWER "
        "objectives, so that archive.stats.obj_max is stale; always plotted with default limits too), in half of "
        "the coarse-scale cases one stored objective is exactly 0.0 (or -0.0), an entirely "
        "empty archive only with explicit limits; objective scales cycled over every plot kind: multiples of 1/4 in "
        "[-8, 8], and values NEARLY TIED RELATIVE TO THEIR MAGNITUDE but exactly representable (also in float32): "
        "1024 + k/512, -262144 + k, 4096 + k/256 with small k, together with explicit (vmin, vmax) pairs that close "
        "together (1..3 lattice steps apart; 2048 / -65536 plus 1/128 on the coarse scale) - default limits must "
        "EQUAL the stored range whenever it is non-degenerate, however narrow, and explicit limits must be honoured "
        "exactly; every plot variant = transpose on/off x "
        "explicit / one-sided / default vmin,vmax x cbar on/off x ax given / current Axes (x sort_archive, "
        "measure_order, boundary_lw, explicit bounds where they exist), each run once with the archive and once with "
        "df=archive.data(return_type='pandas'), and for half of the variants a third time with a frame a caller may "
        "legitimately pass (rows sorted / reversed / shuffled / sliced without reset_index / relabelled / custom "
        "metric in the objective column): the picture must be that of the frame's rows read by position; per case "
        "also ONE frame object used again: looked at first (plotted once / get_field / iterelites / not at all; "
        "ArchiveDataFrame or plain DataFrame), then twice edited IN PLACE with the layout unchanged (custom metric "
        "assigned to the objective column, in-place sort_values, .loc assignment, permuted measure column) and plotted "
        "after each edit: every picture shows what the frame stores at the time of the call; strata grid2-sub / "
        "grid1-sub / parallel-sub: the archive is a USER SUBCLASS of GridArchive overriding index_of together with "
        "boundaries (non-uniform cells: log-spaced or arbitrary dyadic edges), judged by the same oracles against "
        "the subclass's own boundaries (which are also what the Lean model is given) plus 'each elite's colour sits "
        "in the drawn cell that contains its measures' (all grid strata); a case is "
        "non-trivial when it stores at least one elite and either "
        "two distinct objectives or exactly one elite (so that a wrong cell-to-colour assignment is visible), "
        "counted once per distinct list of adds")
PARTIAL = [
    "2-D CVT heat-map: the Voronoi polygons come from scipy/qhull and are not modelled; the harness checks as an "
    "ORACLE (not a theorem) that every drawn polygon contains exactly one centroid, that all `cells` centroids are "
    "covered, and that the face colour is cmap(norm(objective stored at that centroid)), transparent iff the cell is "
    "empty, for both transpose settings; the colour assignment itself (cvt2Cells) is modelled and proved",
    "rendering (rasterisation of the artists by matplotlib/Agg) is trusted: the check reads artist data, not pixels",
]
ASSUMPTIONS = [
    "options whose value equals the documented default are, on a per-option coin, omitted from the call (ax, df, "
    "transpose_measures, vmin, vmax, cbar, boundary_lw, plot_centroids, clip, sort_archive, measure_order, "
    "lower_bounds / upper_bounds): the oracle then judges against the documented default; cbar='auto' (default) must "
    "add exactly one colour-bar Axes, cbar=None none; parallel axes: axis i stands at x = i with the label of its "
    "measure (oracle only, not modelled)",
    "df is passed as the ArchiveDataFrame or (coin) as a plain pandas.DataFrame of it; CVT archives are built from "
    "custom centroids (no samples: plot_samples=True must raise the documented ValueError) or (coin, <= 8 cells) by "
    "k-means from a samples array / count, in which case plot_samples=True must draw exactly archive.samples "
    "(flipped when transposed) and the 1-D cell edges are compared within 2^-30 * scale (non-dyadic centroids)",
    "explicit limits include exactly zero, passed as 0, 0.0, -0.0 or np.float32(0) (falsy but given): the colour "
    "limits must be the explicit ones; frames passed as df also come with an integer / boolean / float32 metric in "
    "the objective column and with integer / float32 measure columns, judged like the float64 frame holding the "
    "same values (a marker of a truncated integer measure may lie outside the archive-derived default limits of "
    "proximity_archive_plot: not judged)",
    "the frame passed as df is archive.data(return_type='pandas') or a reordering / relabelling / row subset of "
    "it, possibly with a replaced objective column (distinct, in-range indices)",
    "a subclass instance is a GridArchive: the docs do not single out subclasses, but ArchiveBase names index_of as "
    "the method child classes override, GridArchive.boundaries is documented as THE description of the cells "
    "(boundaries[i][j], boundaries[i][j + 1] = bounds of cell j in dimension i) and index_of's docstring reads the "
    "cell of a measure off archive.boundaries: a subclass keeping these two consistent is drawn with its own cell "
    "geometry (CVTArchive / SlidingBoundariesArchive subclasses are not drawn: a non-Euclidean index_of has no "
    "Voronoi picture, and the sliding boundaries are rewritten by the archive's own remap)",
    "parallel_axes_plot: on an axis whose archive bounds coincide (zero range) the limits need only contain the "
    "stored value and be non-degenerate (the code widens by 0.01, a non-dyadic constant: line data and limits are "
    "then compared within 2^-30 * scale); everywhere else the comparison is exact",
    "explicit limits satisfy vmin < vmax; matplotlib widens a degenerate colour range (vmin == vmax exactly), so "
    "'limits default to the range of stored objectives' is checked as: limits contain the range when it is "
    "degenerate and EQUAL it (exact rationals, no tolerance) whenever min < max, however close the two are",
    "an entirely empty archive has no objective range: it is plotted only with explicit limits (with default limits "
    "the 2-D functions raise ValueError from np.min of an empty array — recorded as an observation, outside the "
    "property's quantifier 'empty cells, one elite, full')",
    "1-D CVT heat-maps include the single-centroid archive (defect D25: `centroids.squeeze()` became 0-dimensional "
    "and the call raised IndexError; fixed in /repo, corpus/C20/D25.json)",
    "dyadic inputs make every float operation of the plot code exact (midpoints of centroids, parallel-axes "
    "normalisation with power-of-two axis widths), so artists are compared as exact rationals",
]
TRUSTED_EXTRA = ["matplotlib artist accessors under the Agg backend (get_array, get_coordinates, get_offsets, "
                 "get_paths, get_facecolors, get_segments, get_data, get_clim, get_xlim/get_ylim)"]
TECHNIQUE = "Lean 4 proof about an executable model of the artist data + lock-step correspondence + artist-level oracle"
LEVEL_TEXT = ("proof (model) + correspondence on artist data; Voronoi polygon geometry and rendering are "
              "oracle-checked / trusted, see PARTIAL")

CMAP = "magma"
# content patterns, cycled per stratum so that every run covers each of them
# "replaced" = CMA-MAE archive (learning_rate < 1, finite threshold_min) filled by a history in which elites are
# replaced by LOWER objectives, so that archive.stats.obj_max is stale with respect to the stored contents
CELL_PATTERNS = ["one", "replaced", "sparse", "full", "equal", "empty", "sparse", "replaced"]
POINT_PATTERNS = ["one", "many", "few", "many", "equal", "many"]
# objective scales, cycled with a period coprime to the pattern cycles: "coarse" = multiples of 1/4 in [-8, 8];
# the others are NEARLY TIED RELATIVE TO THEIR MAGNITUDE and exactly representable (also in float32):
# base + k * step, 0 <= k <= K, with K small enough that max - min is often below 1e-5 * |base|
OBJ_SCALES = ["coarse", "near1024", "coarse", "negbig", "near4096"]
SCALE_DEF = {  # name: (base, step, choices of K)
    "near1024": (1024.0, 1.0 / 512, [1, 2, 3, 5, 40]),
    "negbig": (-262144.0, 1.0, [1, 2, 2, 9]),
    "near4096": (4096.0, 1.0 / 256, [1, 3, 8, 10, 100]),
}

# --------------------------------------------------------------------------
# helpers

_DRV = [None]
STATS = {}


def stat(key, k=1):
    STATS[key] = STATS.get(key, 0) + k


def drv():
    d = _DRV[0]
    if d is None or d.p.poll() is not None:
        d = Driver("viz")
        _DRV[0] = d
        atexit.register(d.close)
    return d


def dy(rng, lo, hi, den):
    """random multiple of 1/den in [lo, hi] as a float (exact)."""
    return rng.randint(int(lo * den), int(hi * den)) / den


def F(x):
    return Fraction(float(x))


def optF(x):
    if x is np.ma.masked:
        return None
    x = float(x)
    return None if x != x else Fraction(x)


def sha(*parts):
    h = hashlib.sha1()
    for p in parts:
        h.update(p if isinstance(p, bytes) else repr(p).encode())
    return h.hexdigest()


def archive_sum(a):
    d = a.data()
    parts = []
    for k in sorted(d):
        arr = np.asarray(d[k])
        parts += [k, str(arr.dtype), arr.shape, arr.tobytes()]
    for attr in ("boundaries", "centroids", "samples", "lower_bounds", "upper_bounds", "dims"):
        try:
            v = getattr(a, attr)
        except Exception:  # pylint: disable=broad-except
            continue
        if isinstance(v, list):
            parts += [attr] + [np.asarray(x).tobytes() for x in v]
        else:
            parts += [attr, np.asarray(v).tobytes()]
    st = a.stats
    parts += [st.num_elites, repr(st.obj_max), repr(st.qd_score)]
    return sha(*parts)


def as_passed(frame, variant):
    """the frame as the caller passes it: the ArchiveDataFrame, or (coin) a plain pandas.DataFrame of it."""
    if frame is not None and variant.get("plain_df"):
        import pandas as pd
        stat("df passed as a plain pandas.DataFrame")
        return pd.DataFrame(frame)
    return frame


def frame_sum(df):
    import pandas as pd
    # per column (a frame with columns of different kinds would give an object array: pointers, not values)
    return sha(list(df.columns), [str(t) for t in df.dtypes], list(df.index),
               pd.util.hash_pandas_object(df, index=True).values.tobytes(),
               *[np.ascontiguousarray(df[c].to_numpy()).tobytes() for c in df.columns
                 if df[c].dtype != object])


def el_str(data):
    rows = []
    for i, o, m in zip(data["index"], data["objective"], data["measures"]):
        rows.append(f"{int(i)}:{q(float(o))}:{ql(float(x) for x in m)}")
    return ";".join(rows) or "-"


def vstr(v):
    return "none" if v is None else q(v)


def parse_pair(s):
    a, b = s.split(",")
    return (Fraction(a), Fraction(b))


def parse_optlist(s):
    return [] if s in ("-", "") else [None if t == "none" else Fraction(t) for t in s.split(",")]


def parse_rats(s):
    return [] if s in ("-", "") else [Fraction(t) for t in s.split(",")]


def make_scale(rng, name=None):
    name = name or rng.choice(OBJ_SCALES)
    if name == "coarse":
        return {"name": name}
    base, step, ks = SCALE_DEF[name]
    return {"name": name, "base": base, "step": step, "K": rng.choice(ks)}


def gen_obj(rng, sc):
    if sc["name"] == "coarse":
        return dy(rng, -8, 8, 4)
    return sc["base"] + rng.randint(0, sc["K"]) * sc["step"]


def zero_obj(rng, sc, ops):
    """on the coarse scale half of the cases store an objective that is exactly 0.0 (the optimum of the negative
    sphere function of the tutorials): a stored 0.0 is an elite like any other, not a missing value."""
    if sc["name"] == "coarse" and ops and rng.random() < 0.5:
        ops[rng.randrange(len(ops))]["o"] = 0.0
        if rng.random() < 0.3:
            ops[rng.randrange(len(ops))]["o"] = -0.0


def lower_obj(rng, sc, o):
    """an objective strictly below `o` on the lattice of the scale."""
    if sc["name"] == "coarse":
        return o - rng.choice([0.25, 1.0, 3.5])
    return o - rng.randint(1, 3) * sc["step"]


def scale_tmin(sc):
    """a threshold_min far below every objective of the scale."""
    return -1024.0 if sc["name"] == "coarse" else sc["base"] - 2048 * sc["step"]


def gen_clim(rng, sc):
    """explicit / one-sided / default limits; on the near-tied scales (and sometimes on the coarse one) the
    explicit limits CLOSE TOGETHER relative to their magnitude — they must be honoured exactly."""
    if sc["name"] == "coarse":
        mode = rng.choice(["default", "default", "both", "vmin", "vmax", "far-close", "vmin0", "vmax0", "lo0", "hi0"])
        if mode == "far-close":
            v = rng.choice([2048.0, -65536.0])
            return v, v + rng.choice([1.0 / 128, 1.0 / 64])
        # an explicit limit of EXACTLY zero (passed as 0, 0.0, -0.0 or np.float32(0), see `zero_form`) is a given
        # limit like any other
        if mode == "vmin0":
            return 0.0, None
        if mode == "vmax0":
            return None, 0.0
        if mode == "lo0":
            return 0.0, dy(rng, 1, 10, 4)
        if mode == "hi0":
            return dy(rng, -10, -1, 4), 0.0
        vmin = dy(rng, -10, -1, 4) if mode in ("both", "vmin") else None
        vmax = dy(rng, 1, 10, 4) if mode in ("both", "vmax") else None
        return vmin, vmax
    base, step, k = sc["base"], sc["step"], sc["K"]
    mode = rng.choice(["default", "default", "both", "both", "vmin", "vmax", "zero"])
    if mode == "zero":  # exactly zero on the far side of the objectives (with or without the other limit)
        other = (base + rng.randint(0, k + 2) * step) if rng.random() < 0.5 else None
        return (0.0, other) if base > 0 else (other, 0.0)
    if mode == "both":
        vmin = base + rng.randint(-2, k) * step
        return vmin, vmin + rng.choice([1, 1, 2, 3]) * step
    vmin = base + rng.randint(-3, max(0, k - 1)) * step if mode == "vmin" else None
    vmax = base + rng.randint(1, k + 3) * step if mode == "vmax" else None
    return vmin, vmax


# frames a caller may legitimately pass as df= ("we will plot data from this argument instead of the data currently
# in the archive"): the rows of archive.data(return_type="pandas") reordered / relabelled / sliced without
# reset_index / with a custom metric in the objective column.  The picture must be that of the frame's rows (read
# by POSITION, whatever the pandas row labels are).
# ... or with columns of another dtype: an integer / boolean / float32 metric in the objective column (counts,
# ranks, flags: "To display a custom metric, replace the objective column"), integer / float32 measure columns.
# Judged like the float64 frame holding the same values.
DF_MODES = ["sorted", "reversed", "shuffled", "sliced", "relabelled", "custom",
            "obj-int", "obj-bool", "obj-f32", "meas-int", "meas-f32"]


def make_frame(archive, mode):
    df = archive.data(return_type="pandas")
    if mode == "sorted":
        return df.sort_values("objective", kind="stable")
    if mode == "reversed":
        return df.iloc[::-1]
    if mode == "shuffled":
        return df.sample(frac=1, random_state=len(df) + 1)
    if mode == "sliced":
        return df.iloc[1::2] if len(df) >= 2 else df.iloc[:]
    if mode == "relabelled":
        return df.set_axis(np.arange(len(df))[::-1] * 3 + 100)
    if mode == "custom":
        return df.assign(objective=-df["objective"]).iloc[::-1]
    mcols = [c for c in df.columns if c.startswith("measures_")]
    if mode == "obj-int":
        return df.assign(objective=np.floor(df["objective"].to_numpy()).astype(np.int64))
    if mode == "obj-bool":
        o = df["objective"].to_numpy()
        return df.assign(objective=(o > np.median(o)) if len(o) else o.astype(bool))
    if mode == "obj-f32":
        return df.astype({"objective": np.float32})
    if mode == "meas-int":
        return df.astype({c: np.int64 for c in mcols})
    if mode == "meas-f32":
        return df.astype({c: np.float32 for c in mcols})
    raise ValueError(mode)


def frame_rows(frame, measure_dim):
    """the rows of a frame in POSITIONAL order, as the picture must show them."""
    n = len(frame)
    # the measures are read column by column under their explicit names measures_0 .. measures_{d-1} (not through
    # get_field: with >= 11 components the names do not sort like the indices)
    meas = np.stack([np.asarray(frame[f"measures_{i}"], dtype=float) for i in range(measure_dim)], axis=1) \
        if n else np.zeros((0, measure_dim))
    return {"index": np.asarray(frame["index"]).reshape(n),
            "objective": np.asarray(frame["objective"], dtype=float).reshape(n),
            "measures": meas.reshape(n, measure_dim)}


def view_data(archive, view, fn=None):
    """(rows the picture must show, frame to pass as df=): the archive's data(), or the rows of a modified frame
    in positional order, or (Reuse) the rows of ONE frame object that is plotted again after an in-place edit."""
    if view is None:
        return archive.data(), None
    if isinstance(view, Reuse):
        return view.advance(archive, fn)
    frame = make_frame(archive, view)
    return frame_rows(frame, archive.measure_dim), frame


def view_tag(view):
    if isinstance(view, Reuse):
        return f" [{view.label()}]"
    return f" [rows of a {view} frame passed as df=]" if view else ""


def keeps_measures(view):
    """the measure columns of the frame passed as df= are those of the archive (row by row)."""
    if isinstance(view, Reuse):
        return not view.meas_edited
    return view is None or not view.startswith("meas-")


def plots_for(case, view):
    if isinstance(view, Reuse):
        # the frame object is the caller's own: passed as it is (as_passed must not wrap it into a new object)
        k = view.step["plot"] % len(case["plots"])
        yield k, dict(case["plots"][k], dfmode=view.label(), dfstat="reused-frame", plain_df=False)
        return
    for k, v in enumerate(case["plots"]):
        if view is None or v.get("dfmode") == view:
            yield k, v


# ONE frame object used again and again: df = archive.data(return_type="pandas") is looked at (plotted, or read through
# get_field / iterelites), then EDITED IN PLACE the way a caller works with a pandas frame -- a custom metric assigned to
# the objective column ("To display a custom metric, replace the objective column"), an in-place sort, a .loc
# assignment, permuted measure columns -- and plotted again, twice.  Every picture must show what the frame stores at
# the time of the call (rows read by position); the layout of the frame (columns, number of rows) never changes.
REUSE_EDITS = ["assign", "sort", "loc", "meas"]
REUSE_PRIMES = ["plot", "get_field", "iterelites", "none"]
REUSE_METRICS = ["neg", "rev", "rank"]


def gen_reuse(rng, case):
    heat = case["kind"] in ("grid1", "grid2", "cvt1", "cvt2")   # heat-maps do not read the measure columns
    edits = ["assign", "assign", "loc", "sort"] if heat else REUSE_EDITS
    steps = [{"edit": rng.choice(edits), "metric": rng.choice(REUSE_METRICS), "asc": rng.random() < 0.5,
              "plot": rng.randrange(max(1, len(case["plots"])))} for _ in range(2)]
    return {"prime": rng.choice(REUSE_PRIMES), "plain": rng.random() < 0.25, "steps": steps}


class Reuse:
    """the state of one caller-owned frame across the steps of a reuse history (see run_case)."""

    def __init__(self, spec):
        self.spec = spec
        self.frame = None
        self.step = None
        self.done = []
        self.meas_edited = False

    def label(self):
        how = {"plot": "plotted once", "get_field": "read through get_field", "iterelites": "read through iterelites",
               "none": "fresh"}[self.prime_kind()]
        return (f"the same {'plain pandas.DataFrame' if self.spec.get('plain') else 'ArchiveDataFrame'} object "
                f"({how}) passed as df= after in-place edits {self.done}")

    def prime_kind(self):
        p = self.spec.get("prime", "plot")
        # a plain DataFrame has no get_field / iterelites: it is looked at by plotting it
        return "plot" if self.spec.get("plain") and p in ("get_field", "iterelites") else p

    def advance(self, archive, fn):
        if self.frame is None:
            df = archive.data(return_type="pandas")
            if self.spec.get("plain"):
                import pandas as pd
                df = pd.DataFrame(df)
            self.frame = df
            self.prime(archive, fn)
        self.edit(self.step)
        return frame_rows(self.frame, archive.measure_dim), self.frame

    def prime(self, archive, fn):
        df, kind = self.frame, self.prime_kind()
        stat(f"reuse:first-use:{kind}")
        if kind == "plot":
            fg = Fig(False)
            try:    # (an exception here shows again, and is judged, in the plot that follows)
                fn(archive, fg.ax, df=df, **({"vmin": 0.0, "vmax": 1.0} if len(df) == 0 else {}))
            except Exception:  # pylint: disable=broad-except
                stat("reuse:first plot raised")
            finally:
                fg.close()
        elif kind == "get_field":
            for f in ("index", "objective", "measures", "solution", "threshold"):
                df.get_field(f)
        elif kind == "iterelites":
            list(df.iterelites())

    def edit(self, step):
        df, n = self.frame, len(self.frame)
        layout = (list(df.columns), n)
        kind = step["edit"]
        stat(f"reuse:edit:{kind}")
        if kind == "assign":
            o = df["objective"].to_numpy(copy=True)
            new = {"neg": -o, "rev": o[::-1].copy(), "rank": 10.0 + 0.25 * np.arange(n)}[step["metric"]]
            df["objective"] = new
            self.done.append(f"df['objective'] = <{step['metric']}>")
        elif kind == "sort":
            df.sort_values("objective", ascending=bool(step["asc"]), kind="stable", inplace=True)
            self.done.append(f"df.sort_values('objective', ascending={bool(step['asc'])}, inplace=True)")
        elif kind == "loc":
            mask = np.arange(n) % 2 == 0
            df.loc[mask, "objective"] = (df["objective"].max() + 1.0) if n else 0.0
            self.done.append("df.loc[<every other row>, 'objective'] = max + 1")
        elif kind == "meas":
            df["measures_0"] = df["measures_0"].to_numpy(copy=True)[::-1].copy()
            self.meas_edited = True
            self.done.append("df['measures_0'] = <reversed>")
        else:
            raise ValueError(kind)
        assert (list(df.columns), len(df)) == layout and df is self.frame


# DOCUMENTED defaults of the keyword options (docstrings of ribs.visualize): an option whose value in a variant
# equals its documented default is, on a per-option coin, OMITTED from the call instead of being passed explicitly,
# so the picture is judged against the documented default (transpose off: x axis = measure 0; colour limits = range
# of the stored objectives; colour bar drawn; no boundary lines; parallel axes in measure order, unsorted; ...).
DEFAULTS = {"df": None, "transpose_measures": False, "vmin": None, "vmax": None, "cbar": "auto",
            "boundary_lw": 0, "plot_centroids": False, "plot_samples": False, "clip": False, "sort_archive": False,
            "measure_order": None, "lower_bounds": None, "upper_bounds": None}


def gen_variant(rng, sc, **extra):
    vmin, vmax = gen_clim(rng, sc)
    v = {"vmin": vmin, "vmax": vmax, "cbar": rng.random() < 0.3, "gca": rng.random() < 0.25,
         "dfmode": rng.choice(DF_MODES) if rng.random() < 0.5 else None}
    v.update(extra)
    v["omit"] = {k: rng.random() < 0.5 for k in sorted(DEFAULTS) + ["ax"]}
    v["zero_kind"] = rng.choice(ZERO_KINDS)
    # the docstrings allow df to be a plain pandas.DataFrame as well as an ArchiveDataFrame
    v["plain_df"] = rng.random() < 0.5
    return v


def is_default(name, value):
    d = DEFAULTS[name]
    if d is None:
        return value is None
    return isinstance(value, (bool, int, float, str)) and value == d


ZERO_KINDS = ["int", "float", "neg", "f32"]


def zero_form(val, kind):
    """an explicit limit equal to zero is passed as 0, 0.0, -0.0 or np.float32(0) (all falsy, all explicit)."""
    if val is None or val != 0:
        return val
    stat(f"explicit-zero-limit:{kind}")
    return {"int": 0, "float": 0.0, "neg": -0.0, "f32": np.float32(0)}.get(kind, 0.0)


def invoke(fn, archive, fg, variant, kwargs, df, vmin, vmax):
    """calls the plot function; options at their documented default are omitted when the variant's coin says so."""
    vmin, vmax = zero_form(vmin, variant.get("zero_kind")), zero_form(vmax, variant.get("zero_kind"))
    full = dict(kwargs, df=df, vmin=vmin, vmax=vmax, cbar="auto" if variant.get("cbar") else None)
    omit = variant.get("omit") or {}
    passed = {}
    for k, val in full.items():
        if omit.get(k) and k in DEFAULTS and is_default(k, val):
            stat(f"omitted:{k}")
        else:
            passed[k] = val
    if fg.ax_arg is None and omit.get("ax"):
        stat("omitted:ax")
        return fn(archive, **passed)
    return fn(archive, fg.ax_arg, **passed)


def marker_lines(fg, markers, tag):
    """Line2D artists on the plot Axes: none by default (plot_centroids / plot_samples are off unless asked for);
    with plot_centroids=True exactly the centroids.  `markers=None`: the lines are the picture itself (parallel)."""
    if markers is None:
        return None
    got = [(np.asarray(ln.get_xdata(), dtype=float), np.asarray(ln.get_ydata(), dtype=float))
           for ln in fg.ax.get_lines()]
    if len(got) != len(markers) or not all(np.array_equal(g[0], np.asarray(w[0], dtype=float)) and
                                           np.array_equal(g[1], np.asarray(w[1], dtype=float))
                                           for g, w in zip(got, markers)):
        return (f"{tag}: {len(got)} Line2D marker set(s) on the Axes, expected {len(markers)} "
                f"({'exactly archive.samples and / or the centroids (flipped when transposed), samples first' if markers else 'none: plot_centroids / plot_samples are off'})")
    return None


def cbar_presence(fg, n_before, twin_axes, variant, tag):
    """cbar='auto' (the documented default) draws a colour bar on a new Axes of the figure; cbar=None draws none.
    (The colour bar is how a viewer decodes the colours; for the 2-D CVT heat-map and the parallel axes plot it is
    also the only artist carrying the colour limits.)"""
    extra = len(fg.fig.axes) - n_before - twin_axes
    want = 1 if variant.get("cbar") else 0
    if extra != want:
        return (f"{tag}: {extra} colour-bar Axes added to the figure with cbar="
                f"{'auto (documented default)' if want else 'None'}, expected {want}")
    return None


def effective_limits(variant, objs):
    """explicit limits as used for this archive content: a one-sided explicit limit that would
    give vmin > vmax is dropped; an empty archive gets both limits explicitly."""
    vmin, vmax = variant["vmin"], variant["vmax"]
    if len(objs) == 0:
        if vmin is None and vmax is None:
            return -2.0, 3.0
        return (vmax - 5.0 if vmin is None else vmin), (vmin + 5.0 if vmax is None else vmax)
    lo = min(objs) if vmin is None else vmin
    hi = max(objs) if vmax is None else vmax
    if lo > hi:
        return None, None
    return vmin, vmax


def clim_check(got, vmin, vmax, objs, what, widened_ok=True):
    """property clause on colour limits, read on the implementation's own data.  A degenerate range
    (min == max) may be widened by matplotlib when a colour bar is attached (`widened_ok`); otherwise the
    limits are exactly the range."""
    if got is None:
        return None
    glo, ghi = got
    if vmin is not None and vmax is not None:
        want = (F(vmin), F(vmax))
    else:
        want = (F(min(objs)) if vmin is None else F(vmin), F(max(objs)) if vmax is None else F(vmax))
    if want[0] < want[1] or not widened_ok:
        if (glo, ghi) != want:
            return (f"{what}: colour limits {float(glo)},{float(ghi)} != {float(want[0])},{float(want[1])} "
                    f"(the explicit limits / the range of the stored objectives)")
    elif not (glo <= want[0] and want[1] <= ghi):
        return f"{what}: colour limits {float(glo)},{float(ghi)} do not contain {float(want[0])},{float(want[1])}"
    return None


def lims_ok(got, want):
    """axis limits: exactly `want`; matplotlib expands identical limits, then they must contain them."""
    lo, hi = want
    if lo < hi:
        return tuple(got) == (lo, hi)
    return got[0] <= lo and hi <= got[1]


def clim_corr(got, model, tol=None, widened_ok=True):
    if got is None:
        return True
    if model[0] < model[1] or not widened_ok:
        if tol is not None:
            return abs(got[0] - model[0]) <= tol and abs(got[1] - model[1]) <= tol
        return tuple(got) == tuple(model)
    return got[0] <= model[0] and model[1] <= got[1]


class Fig:
    """a small figure; `ax_arg` is what is passed as `ax` (None = current Axes)."""

    def __init__(self, gca):
        import matplotlib.pyplot as plt
        self.fig = plt.figure(figsize=(2.0, 1.5), dpi=40)
        self.ax = self.fig.add_subplot()
        self.ax_arg = None if gca else self.ax

    def close(self):
        import matplotlib.pyplot as plt
        plt.close("all")


def cbar_limits(fig, n_before, horizontal):
    """limits of the colour bar drawn for a detached ScalarMappable (last Axes of the figure)."""
    if len(fig.axes) <= n_before:
        return None
    cax = fig.axes[-1]
    lim = cax.get_xlim() if horizontal else cax.get_ylim()
    return (F(lim[0]), F(lim[1]))


def read_quadmesh(ax):
    from matplotlib.collections import QuadMesh
    qms = [c for c in ax.collections if isinstance(c, QuadMesh)]
    if len(qms) != 1:
        return None, f"{len(qms)} QuadMesh artists on the Axes"
    qm = qms[0]
    coords = np.asarray(qm.get_coordinates())
    arr = qm.get_array()
    ny, nx = coords.shape[0] - 1, coords.shape[1] - 1
    arr = np.ma.asarray(arr).reshape(ny, nx)
    xe = [F(x) for x in coords[0, :, 0]]
    ye = [F(y) for y in coords[:, 0, 1]]
    for r in range(ny + 1):
        for c in range(nx + 1):
            if F(coords[r, c, 0]) != xe[c] or F(coords[r, c, 1]) != ye[r]:
                return None, "QuadMesh coordinates are not a rectilinear grid"
    colors = [[optF(arr[r, c]) for c in range(nx)] for r in range(ny)]
    lo, hi = qm.get_clim()
    return {"colors": colors, "xe": xe, "ye": ye, "clim": (F(lo), F(hi)),
            "xlim": tuple(F(v) for v in ax.get_xlim()), "ylim": tuple(F(v) for v in ax.get_ylim())}, None


def read_scatter(ax):
    from matplotlib.collections import LineCollection, PathCollection
    scs = [c for c in ax.collections if isinstance(c, PathCollection)]
    if len(scs) != 1:
        return None, f"{len(scs)} PathCollection artists on the Axes"
    sc = scs[0]
    off = np.ma.asarray(sc.get_offsets())
    arr = sc.get_array()
    arr = [] if arr is None else list(np.ma.asarray(arr).ravel())
    lo, hi = sc.get_clim()
    obs = {"off": [(optF(p[0]), optF(p[1])) for p in off], "c": [optF(v) for v in arr],
           "clim": (F(lo), F(hi)),
           "xlim": tuple(F(v) for v in ax.get_xlim()), "ylim": tuple(F(v) for v in ax.get_ylim())}
    vert, horiz = [], []
    groups = []
    for lc in ax.collections:
        if not isinstance(lc, LineCollection):
            continue
        segs = [np.asarray(sg) for sg in lc.get_segments()]
        if any(sg.shape != (2, 2) for sg in segs):
            return None, "boundary segment is not a 2-point line"
        is_v = all(sg[0, 0] == sg[1, 0] for sg in segs)
        is_h = all(sg[0, 1] == sg[1, 1] for sg in segs)
        if not (is_v or is_h):
            return None, "boundary segment is neither vertical nor horizontal"
        groups.append([segs, is_v, is_h])
    if len(groups) > 2:
        return None, f"{len(groups)} LineCollections on the Axes"
    # a zero-length segment (archive bounds collapsed by a remap) is both: decide by the other group, then by order
    kinds = [("v" if g[1] and not g[2] else "h" if g[2] and not g[1] else None) for g in groups]
    for i, k in enumerate(kinds):
        if k is None:
            other = kinds[1 - i] if len(kinds) == 2 else None
            kinds[i] = ("h" if other == "v" else "v" if other == "h" else ("v" if i == 0 else "h"))
    if len(kinds) == 2 and kinds[0] == kinds[1]:
        return None, "two boundary line collections with the same orientation"
    for (segs, _, _), k in zip(groups, kinds):
        for sg in segs:
            (x0, y0), (x1, y1) = sg
            if k == "v":
                vert.append((F(x0), (F(y0), F(y1))))
            else:
                horiz.append((F(y0), (F(x0), F(x1))))
    obs["vert"], obs["horiz"] = vert, horiz
    return obs, None


def model_heatmap(line):
    if line.startswith("err"):
        return line
    d = kvs(line)
    out = {"colors": [] if d["colors"] == "-" else [parse_optlist(r) for r in d["colors"].split("|")],
           "xe": parse_rats(d["xe"]), "ye": parse_rats(d["ye"]), "clim": parse_pair(d["clim"])}
    if "xlim" in d:
        out["xlim"], out["ylim"] = parse_pair(d["xlim"]), parse_pair(d["ylim"])
    return out


def cmp_fields(obs, model, fields, where):
    for f in fields:
        if obs[f] != model[f]:
            return Failure("corr", f"{where}: {f} impl={_short(obs[f])} model={_short(model[f])}")
    if not clim_corr(obs["clim"], model["clim"], widened_ok=obs.get("_cbar", True)):
        return Failure("corr", f"{where}: clim impl={_short(obs['clim'])} model={_short(model['clim'])}")
    return None


def _short(x):
    def conv(v):
        if isinstance(v, Fraction):
            return float(v)
        if isinstance(v, (list, tuple)):
            return [conv(t) for t in v]
        return v
    return repr(conv(x))[:400]


_JUDGES = ("oracle", "corr")


def judge(oracle, corr, obs=None):
    """property oracle first (a failing input) — on the artists drawn from the archive, then "df= draws the same
    artists" — then the correspondence with the Lean model."""
    for name in _JUDGES:
        f = oracle() if name == "oracle" else corr()
        if f:
            return f
        if name == "oracle" and obs is not None and obs.get("_df_diff"):
            return Failure("oracle", obs["_df_diff"])
    return None


# --------------------------------------------------------------------------
# running one plot variant with the archive and with df=


def call_both(fn, archive, variant, kwargs, read, where, vmin, vmax, frame=None, twin_axes=0, markers=()):
    """Runs `fn` with the archive and with df=archive.data(pandas) — or, when `frame` is given, once with
    df=frame. Returns (obs, Failure|None)."""
    warnings.simplefilter("ignore")
    if frame is not None:
        return call_frame(fn, archive, variant, kwargs, read, where, vmin, vmax, frame, twin_axes, markers)
    stat(f"plots:{fn.__name__}", 2)
    stat("variant:" + ("default-limits" if vmin is None and vmax is None else
                       "explicit-limits" if vmin is not None and vmax is not None else "one-sided-limits"))
    base_sum = archive_sum(archive)
    out = []
    for use_df in (False, True):
        tag = f"{where} df={int(use_df)}"
        df = as_passed(archive.data(return_type="pandas"), variant) if use_df else None
        dsum = frame_sum(df) if use_df else None
        fg = Fig(variant.get("gca", False))
        try:
            n_before = len(fg.fig.axes)
            try:
                invoke(fn, archive, fg, variant, kwargs, df, vmin, vmax)
            except Exception as e:  # pylint: disable=broad-except
                key = None
                if fn.__name__ == "grid_archive_heatmap" and archive.measure_dim == 1 and len(archive) == 1:
                    key = "D22"
                return None, Failure("oracle", f"{tag}: {fn.__name__} raised {type(e).__name__} on a valid "
                                     f"archive ({len(archive)} elites): {str(e)[:120]}", key=key)
            obs, err = read(fg, n_before)
            err = err or cbar_presence(fg, n_before, twin_axes, variant, tag) or marker_lines(fg, markers, tag)
            if err:
                return None, Failure("oracle", f"{tag}: {err}" if not err.startswith(tag) else err)
            obs["_cbar"] = bool(variant.get("cbar"))
        finally:
            fg.close()
        if archive_sum(archive) != base_sum:
            return None, Failure("oracle", f"{tag}: plotting modified the archive")
        if use_df and frame_sum(df) != dsum:
            key = "D15" if fn.__name__ == "parallel_axes_plot" and kwargs.get("sort_archive") else None
            return None, Failure("oracle", f"{tag}: {fn.__name__} modified the caller's data frame "
                                 f"(sort_archive={kwargs.get('sort_archive')})", key=key)
        out.append(obs)
    if out[0] != out[1]:
        # judged after the oracle has looked at the artists drawn from the archive (more specific message first)
        diff = [k for k in out[0] if out[0][k] != out[1][k]]
        out[0]["_df_diff"] = (f"{where}: df= gives different artists than the archive ({diff}): "
                              f"{_short([out[0][k] for k in diff])[:150]} vs {_short([out[1][k] for k in diff])[:150]}")
    return out[0], None


def call_frame(fn, archive, variant, kwargs, read, where, vmin, vmax, frame, twin_axes=0, markers=()):
    stat(f"plots:{fn.__name__}", 1)
    stat(f"df-mode:{variant.get('dfstat') or variant.get('dfmode')}")
    tag = f"{where} df=<{variant.get('dfmode')} frame, row labels {list(frame.index)[:6]}>"
    base_sum = archive_sum(archive)
    frame = as_passed(frame, variant)
    dsum = frame_sum(frame)
    fg = Fig(variant.get("gca", False))
    try:
        n_before = len(fg.fig.axes)
        try:
            invoke(fn, archive, fg, variant, kwargs, frame, vmin, vmax)
        except Exception as e:  # pylint: disable=broad-except
            return None, Failure("oracle", f"{tag}: {fn.__name__} raised {type(e).__name__} on a valid frame "
                                 f"({len(frame)} rows): {str(e)[:120]}")
        obs, err = read(fg, n_before)
        err = err or cbar_presence(fg, n_before, twin_axes, variant, tag) or marker_lines(fg, markers, tag)
        if err:
            return None, Failure("oracle", f"{tag}: {err}" if not err.startswith(tag) else err)
        obs["_cbar"] = bool(variant.get("cbar"))
    finally:
        fg.close()
    if archive_sum(archive) != base_sum:
        return None, Failure("oracle", f"{tag}: plotting modified the archive")
    if frame_sum(frame) != dsum:
        return None, Failure("oracle", f"{tag}: {fn.__name__} modified the caller's data frame")
    return obs, None


# --------------------------------------------------------------------------
# grid heat-maps


def gen_grid(rng, one_d, pattern=None, scale=None):
    sc = make_scale(rng, scale)
    if one_d:
        dims = [rng.randint(1, 8)]
    else:
        dims = [rng.randint(1, 8), rng.randint(1, 8)]
    lows = [dy(rng, -8, 8, 4), dy(rng, 16, 32, 4)][:len(dims)]
    widths = [rng.choice([1, 1.5, 2, 3, 4]), rng.choice([1, 2.5, 5, 6])][:len(dims)]
    cells = [[i] for i in range(dims[0])] if one_d else [[i, j] for i in range(dims[0]) for j in range(dims[1])]
    rng.shuffle(cells)
    pattern = pattern or rng.choice(CELL_PATTERNS)
    if pattern == "one":
        chosen = cells[:1]
    elif pattern == "full":
        chosen = cells
    elif pattern == "empty":
        chosen = []
    else:
        chosen = cells[:rng.randint(1, max(1, len(cells) - 1))]
    same = gen_obj(rng, sc)
    ops = [{"cell": c, "o": same if pattern == "equal" else gen_obj(rng, sc)} for c in chosen]
    if pattern != "equal":
        zero_obj(rng, sc, ops)
    if pattern in ("sparse", "full") and rng.random() < 0.4:
        for c in rng.sample(chosen, min(len(chosen), 3)):
            ops.append({"cell": c, "o": gen_obj(rng, sc)})  # competition for a cell
        rng.shuffle(ops)
    cma = replaced_history(rng, sc, ops, "cell") if pattern == "replaced" else None
    plots = [gen_variant(rng, sc, tr=tr) for tr in ((False, True) if not one_d else (rng.random() < 0.3,))]
    if rng.random() < 0.3:
        plots.append(gen_variant(rng, sc, tr=rng.random() < 0.5))
    default_limits_first(pattern, plots)
    return {"kind": "grid1" if one_d else "grid2", "dims": dims, "lows": lows, "widths": widths,
            "pattern": pattern, "oscale": sc, "cma": cma, "ops": ops, "plots": plots}


def default_limits_first(pattern, plots):
    """the 'replaced' histories aim at the DEFAULT limits (range of what is stored now, not of what was seen)."""
    if pattern == "replaced" and plots:
        plots[0]["vmin"] = plots[0]["vmax"] = None


def replaced_history(rng, sc, ops, key):
    """Appends (in place, order matters: one add call per op) later candidates for already filled cells: a
    LOWER objective for the cell holding the best elite, arbitrary ones for a few others.  Returns the CMA-MAE
    settings under which they replace the incumbents."""
    if ops:
        best = max(ops, key=lambda op: op["o"])
        later = [{key: best[key], "o": lower_obj(rng, sc, best["o"])}]
        for op in rng.sample(ops, min(len(ops), 2)):
            later.append({key: op[key], "o": lower_obj(rng, sc, op["o"]) if rng.random() < 0.6 else gen_obj(rng, sc)})
        rng.shuffle(later)
        ops.extend(later)
    return {"lr": rng.choice([0.0, 0.125, 0.5]), "tmin": scale_tmin(sc)}


def cma_kwargs(case):
    cma = case.get("cma")
    return {} if not cma else {"learning_rate": cma["lr"], "threshold_min": cma["tmin"]}


def add_ops(a, case, objs, meas):
    """one batch, or (CMA-MAE histories) one add call per op in order."""
    if not objs:
        return
    if case.get("cma"):
        for k, (o, m) in enumerate(zip(objs, meas)):
            a.add([[float(k)]], [o], [m])
        st = a.stats
        if st.obj_max is not None and float(st.obj_max) > max(float(x) for x in a.data("objective")):
            stat(f"content:{case['kind']}:stale-stats.obj_max")
    else:
        a.add(np.arange(len(objs), dtype=float)[:, None], objs, meas)


_SUBCLASS = {}


def nonuniform_grid_class():
    """A user extension of GridArchive with NON-UNIFORM cells: it overrides the two documented pieces that say where
    the cells are -- the hook `index_of` (measures -> cell, ArchiveBase: "child classes typically override") and the
    property `boundaries` ("boundaries[i][j] and boundaries[i][j + 1] are the lower and upper bounds of cell j in
    dimension i"; index_of's docstring reads the cell of a measure off `archive.boundaries`) -- consistently."""
    if "grid" not in _SUBCLASS:
        from ribs.archives import GridArchive

        class NonUniformGridArchive(GridArchive):
            """GridArchive whose cell edges are given explicitly per dimension."""

            def __init__(self, *, edges, **kwargs):
                super().__init__(**kwargs)
                self._edges = [np.asarray(e, dtype=self.dtypes["measures"]) for e in edges]

            @property
            def boundaries(self):
                return self._edges

            def index_of(self, measures):
                measures = np.asarray(measures, dtype=self.dtypes["measures"])
                super().index_of(measures)      # the documented validation of shape / finiteness
                grid = [np.clip(np.searchsorted(e, measures[:, i], side="right") - 1, 0, len(e) - 2)
                        for i, e in enumerate(self._edges)]
                return self.grid_to_int_index(np.stack(grid, axis=1))

        _SUBCLASS["grid"] = NonUniformGridArchive
    return _SUBCLASS["grid"]


SUB_EDGES = ["log", "log-rev", "random", "random"]


def gen_sub(rng, dims, lows, widths):
    """cell edges of the non-uniform grid: dyadic (exact), strictly increasing from the lower to the upper bound;
    'log' = every cell twice as wide as the one before it (a log-spaced grid), 'random' = arbitrary interior edges."""
    kinds, edges = [], []
    for d, lo, w in zip(dims, lows, widths):
        kind = rng.choice(SUB_EDGES)
        if kind == "random":
            inner = sorted(rng.sample(range(1, 64), d - 1))
            e = [lo] + [lo + w * k / 64 for k in inner] + [lo + w]
        else:
            fr = [0.0] + [2.0 ** -(d - k) for k in range(1, d + 1)]
            if kind == "log-rev":
                fr = [1.0 - x for x in reversed(fr)]
            e = [lo + w * x for x in fr]
        kinds.append(kind)
        edges.append(e)
    return {"kinds": kinds, "edges": edges}


def make_grid_archive(case, dims, ranges, **kw):
    """the stock GridArchive, or (case['sub']) the user subclass with its own index_of / boundaries."""
    from ribs.archives import GridArchive
    sub = case.get("sub")
    if not sub:
        return GridArchive(solution_dim=1, dims=dims, ranges=ranges, **kw)
    stat(f"content:{case['kind']}:user subclass of GridArchive (index_of + boundaries overridden)")
    for k in sub["kinds"]:
        stat(f"subclass-edges:{k}")
    a = nonuniform_grid_class()(solution_dim=1, dims=dims, ranges=ranges, edges=sub["edges"], **kw)
    if any(len(b) > 2 and not np.array_equal(b, np.linspace(b[0], b[-1], len(b))) for b in a.boundaries):
        stat(f"content:{case['kind']}:subclass cells are not uniform")
    return a


def build_grid(case):
    dims = case["dims"]
    ranges = [(lo, lo + w) for lo, w in zip(case["lows"], case["widths"])]
    a = make_grid_archive(case, dims, ranges, **cma_kwargs(case))
    ops = case["ops"]
    if case.get("sub"):     # the centre of the cell as the archive itself describes it
        bnd = a.boundaries
        meas = [[float(bnd[i][g] + bnd[i][g + 1]) / 2 for i, g in enumerate(op["cell"])] for op in ops]
    else:
        meas = [[lo + (g + 0.5) * w / d for g, lo, w, d in zip(op["cell"], case["lows"], case["widths"], dims)]
                for op in ops]
    add_ops(a, case, [op["o"] for op in ops], meas)
    return a


def run_grid(case, view=None):
    from ribs.visualize import grid_archive_heatmap
    a = build_grid(case)
    dims = case["dims"]
    one_d = len(dims) == 1
    data, frame = view_data(a, view, grid_archive_heatmap)
    objs = [float(o) for o in data["objective"]]
    gidx = a.int_to_grid_index(data["index"]) if len(objs) else np.zeros((0, len(dims)), dtype=int)
    stored = {tuple(int(g) for g in gi): F(o) for gi, o in zip(gidx, data["objective"])}
    bnd = [[F(b) for b in bb] for bb in a.boundaries]
    lo = [F(x) for x in a.lower_bounds]
    hi = [F(x) for x in a.upper_bounds]
    for k, v in plots_for(case, view):
        tr = bool(v["tr"])
        vmin, vmax = effective_limits(v, objs)
        where = f"{case['kind']} plot#{k} tr={int(tr)} vmin={vmin} vmax={vmax}"
        where += view_tag(view)
        if case.get("sub"):
            where += " [archive = user subclass of GridArchive overriding index_of + boundaries, non-uniform cells]"
        obs, fail = call_both(grid_archive_heatmap, a, v, {"transpose_measures": tr},
                              lambda fg, n: read_quadmesh(fg.ax), where, vmin, vmax, frame=frame)
        if fail:
            return fail
        # ---- oracle: the property read on the artists
        def oracle():
            if one_d:
                want_shape, xdim, ydim = (1, dims[0]), 0, None
            elif tr:
                want_shape, xdim, ydim = (dims[0], dims[1]), 1, 0
            else:
                want_shape, xdim, ydim = (dims[1], dims[0]), 0, 1
            got_shape = (len(obs["colors"]), len(obs["colors"][0]) if obs["colors"] else 0)
            if got_shape != want_shape:
                return Failure("oracle", f"{where}: colour matrix has shape {got_shape}, archive cells {want_shape}")
            for r in range(want_shape[0]):
                for c in range(want_shape[1]):
                    cell = (c,) if one_d else ((r, c) if tr else (c, r))
                    if obs["colors"][r][c] != stored.get(cell):
                        return Failure("oracle", f"{where}: drawn cell row={r} col={c} shows "
                                       f"{_short(obs['colors'][r][c])}, archive cell {cell} stores "
                                       f"{_short(stored.get(cell))}")
            # every elite's colour sits in the drawn cell that contains its measures (closed cells: a point on an
            # edge belongs to either side)
            if keeps_measures(view):
                for o, m in zip(data["objective"], data["measures"]):
                    px, py = F(m[xdim]), (Fraction(1, 2) if one_d else F(m[ydim]))
                    cs_ = [c for c in range(want_shape[1]) if obs["xe"][c] <= px <= obs["xe"][c + 1]]
                    rs_ = [r for r in range(want_shape[0]) if obs["ye"][r] <= py <= obs["ye"][r + 1]]
                    if len(obs["xe"]) != want_shape[1] + 1 or len(obs["ye"]) != want_shape[0] + 1 or \
                            not any(obs["colors"][r][c] == F(o) for r in rs_ for c in cs_):
                        return Failure("oracle", f"{where}: the elite with measures {[float(x) for x in m]} and "
                                       f"objective {float(o)} is not shown by the drawn cell that contains its "
                                       f"measures (x edges {_short(obs['xe'])}, y edges {_short(obs['ye'])}; that cell "
                                       f"shows {_short([obs['colors'][r][c] for r in rs_ for c in cs_])})")
            if obs["xe"] != bnd[xdim]:
                return Failure("oracle", f"{where}: x edges {_short(obs['xe'])} != boundaries[{xdim}]")
            if obs["ye"] != ([Fraction(0), Fraction(1)] if one_d else bnd[ydim]):
                return Failure("oracle", f"{where}: y edges {_short(obs['ye'])} != boundaries[{ydim}]")
            if obs["xlim"] != (lo[xdim], hi[xdim]) or (not one_d and obs["ylim"] != (lo[ydim], hi[ydim])):
                return Failure("oracle", f"{where}: axis limits {_short(obs['xlim'])} {_short(obs['ylim'])} are not "
                               f"the archive bounds of the plotted dimensions")
            msg = clim_check(obs["clim"], vmin, vmax, objs, where, widened_ok=obs.get("_cbar", True))
            if msg:
                return Failure("oracle", msg)
            return None

        # ---- correspondence
        def corr():
            req = (f"grid dims={','.join(map(str, dims))} b={'|'.join(ql(b) for b in bnd)} tr={int(tr)} "
                   f"vmin={vstr(vmin)} vmax={vstr(vmax)} el={el_str(data)}")
            if not one_d:
                req += f" lo={ql(lo)} hi={ql(hi)}"
            m = model_heatmap(drv().ask(req))
            if isinstance(m, str):
                return Failure("corr", f"{where}: model answered {m}")
            f = cmp_fields(obs, m, ["colors", "xe", "ye"] + ([] if one_d else ["xlim", "ylim"]), where)
            if f:
                return f
            return None

        f = judge(oracle, corr, obs)
        if f:
            return f
    return None


# --------------------------------------------------------------------------
# CVT heat-maps


def gen_samples(rng, n, lows, widths):
    """(coin) the archive is built by k-means from an explicit `samples` array / a `samples` count, and so keeps
    `archive.samples` (plot_samples=True draws them); otherwise custom centroids, no samples."""
    if n > 8 or rng.random() >= 0.3:
        return None
    if rng.random() < 0.5:
        return {"count": n + rng.randint(2, 24), "seed": rng.randint(0, 999)}
    pts = set()
    while len(pts) < n + rng.randint(1, 16):
        # strictly inside the bounds: a centroid on the bounding box would sit on the edge of its clipped polygon
        pts.add(tuple(lo + w * rng.randint(2, 62) / 64 for lo, w in zip(lows, widths)))
    pts = [list(p) for p in sorted(pts)]
    rng.shuffle(pts)
    return {"points": pts, "seed": rng.randint(0, 999)}


def build_cvt(case, n, ranges, custom):
    from ribs.archives import CVTArchive
    smp = case.get("samples")
    if smp is None:
        return CVTArchive(solution_dim=1, cells=n, ranges=ranges, custom_centroids=custom, **cma_kwargs(case))
    stat(f"content:{case['kind']}:archive keeps its samples")
    return CVTArchive(solution_dim=1, cells=n, ranges=ranges, seed=smp["seed"],
                      samples=np.asarray(smp["points"], dtype=float) if "points" in smp else smp["count"],
                      **cma_kwargs(case))


def samples_refused(archive, fn, where):
    """documented: plot_samples=True on an archive without samples raises ValueError."""
    fg = Fig(False)
    try:
        fn(archive, fg.ax, plot_samples=True, vmin=0.0, vmax=1.0, cbar=None)
    except ValueError:
        return None
    except Exception as e:  # pylint: disable=broad-except
        return Failure("oracle", f"{where}: plot_samples=True on an archive without samples raised "
                       f"{type(e).__name__} instead of the documented ValueError: {str(e)[:100]}")
    finally:
        fg.close()
    return Failure("oracle", f"{where}: plot_samples=True on an archive without samples was accepted (documented: "
                   f"ValueError)")


def gen_cvt1(rng, pattern=None, scale=None):
    sc = make_scale(rng, scale)
    n = rng.choice([1, 2, 2, 3, 4, 5, 8, 13, 21, 30]) if rng.random() < 0.7 else rng.randint(1, 30)
    lo = dy(rng, -8, 0, 4)
    width = rng.choice([1, 2, 4, 8])
    den = 64
    pts = rng.sample(range(0, int(width * den) + 1), n)  # distinct, shuffled (not sorted)
    cents = [lo + p / den for p in pts]
    idx = list(range(n))
    rng.shuffle(idx)
    pattern = pattern or rng.choice(CELL_PATTERNS)
    chosen = {"one": idx[:1], "full": idx, "empty": []}.get(pattern, idx[:rng.randint(1, max(1, n - 1))])
    same = gen_obj(rng, sc)
    ops = [{"c": c, "o": same if pattern == "equal" else gen_obj(rng, sc)} for c in chosen]
    if pattern != "equal":
        zero_obj(rng, sc, ops)
    cma = replaced_history(rng, sc, ops, "c") if pattern == "replaced" else None
    samples = gen_samples(rng, n, [lo], [width])
    plots = [gen_variant(rng, sc, tr=False, plot_centroids=rng.random() < 0.2,
                         plot_samples=samples is not None and rng.random() < 0.7)]
    if rng.random() < 0.5:
        plots.append(gen_variant(rng, sc, tr=rng.random() < 0.5,
                                 plot_samples=samples is not None and rng.random() < 0.5))
    default_limits_first(pattern, plots)
    return {"kind": "cvt1", "lo": lo, "width": width, "centroids": cents, "samples": samples, "pattern": pattern,
            "oscale": sc, "cma": cma, "ops": ops, "plots": plots}


def run_cvt1(case, view=None):
    from ribs.archives import CVTArchive
    from ribs.visualize import cvt_archive_heatmap
    cents = case["centroids"]
    lo, hi = case["lo"], case["lo"] + case["width"]
    a = build_cvt(case, len(cents), [(lo, hi)], np.asarray(cents, dtype=float)[:, None])
    ops = case["ops"]
    add_ops(a, case, [op["o"] for op in ops], [[float(a.centroids[op["c"], 0])] for op in ops])
    # k-means centroids are not dyadic: the midpoints (a + b) / 2 round, edges are then compared within 2^-30 * scale
    loose = case.get("samples") is not None
    if view is None and a.samples is None:
        f = samples_refused(a, cvt_archive_heatmap, "cvt1")
        if f:
            return f
    data, frame = view_data(a, view, cvt_archive_heatmap)
    objs = [float(o) for o in data["objective"]]
    stored = {int(i): F(o) for i, o in zip(data["index"], data["objective"])}
    cs = [F(c) for c in a.centroids[:, 0]]
    for k, v in plots_for(case, view):
        vmin, vmax = effective_limits(v, objs)
        where = f"cvt1 plot#{k} vmin={vmin} vmax={vmax}"
        where += view_tag(view)
        kw = {"transpose_measures": bool(v["tr"])}
        kw["plot_centroids"] = bool(v.get("plot_centroids"))
        kw["plot_samples"] = bool(v.get("plot_samples")) and a.samples is not None
        markers = ([(a.samples[:, 0], np.full(len(a.samples), 0.5))] if kw["plot_samples"] else []) + \
            ([(a.centroids[:, 0], np.full(len(cs), 0.5))] if kw["plot_centroids"] else [])
        obs, fail = call_both(cvt_archive_heatmap, a, v, kw, lambda fg, n: read_quadmesh(fg.ax), where, vmin, vmax,
                              frame=frame, markers=markers)
        if fail:
            return fail
        # ---- oracle
        def oracle():
            xe, colors = obs["xe"], obs["colors"]
            if len(colors) != 1 or len(colors[0]) != len(cs) or len(xe) != len(cs) + 1:
                return Failure("oracle", f"{where}: {len(colors)} rows / {len(xe)} edges for {len(cs)} cells")
            if xe[0] != F(a.lower_bounds[0]) or xe[-1] != F(a.upper_bounds[0]) or obs["ye"] != [0, 1]:
                return Failure("oracle", f"{where}: outer edges are not the archive bounds")
            srt = sorted(cs)
            for p in range(len(cs)):
                inside = [i for i, c in enumerate(cs) if xe[p] <= c <= xe[p + 1]]
                if len(inside) != 1:
                    return Failure("oracle", f"{where}: drawn cell {p} [{float(xe[p])},{float(xe[p+1])}] contains "
                                   f"centroids {inside}")
                mid = (srt[p] + srt[p + 1]) / 2 if p + 1 < len(cs) else None
                if mid is not None and (not near(xe[p + 1], mid, mid) if loose else xe[p + 1] != mid):
                    return Failure("oracle", f"{where}: edge {p+1} is not the midpoint of neighbouring centroids")
                if colors[0][p] != stored.get(inside[0]):
                    return Failure("oracle", f"{where}: drawn cell {p} (centroid {inside[0]}) shows "
                                   f"{_short(colors[0][p])}, archive stores {_short(stored.get(inside[0]))}")
            if obs["xlim"] != (F(a.lower_bounds[0]), F(a.upper_bounds[0])):
                return Failure("oracle", f"{where}: x limits are not the archive bounds")
            msg = clim_check(obs["clim"], vmin, vmax, objs, where, widened_ok=obs.get("_cbar", True))
            if msg:
                return Failure("oracle", msg)
            return None

        # ---- correspondence
        def corr():
            m = model_heatmap(drv().ask(f"cvt1 lo={q(a.lower_bounds[0])} hi={q(a.upper_bounds[0])} cs={ql(cs)} "
                                        f"vmin={vstr(vmin)} vmax={vstr(vmax)} el={el_str(data)}"))
            if isinstance(m, str):
                return Failure("corr", f"{where}: model answered {m}")
            if loose:
                if len(obs["xe"]) != len(m["xe"]) or not all(near(x, y, y) for x, y in zip(obs["xe"], m["xe"])):
                    return Failure("corr", f"{where}: xe impl={_short(obs['xe'])} model={_short(m['xe'])}")
            f = cmp_fields(obs, m, ["colors", "ye"] if loose else ["colors", "xe", "ye"], where)
            if f:
                return f
            return None

        f = judge(oracle, corr, obs)
        if f:
            return f
    return None


def gen_cvt2(rng, pattern=None, scale=None):
    sc = make_scale(rng, scale)
    n = rng.choice([1, 2, 3, 5, 8, 13, 20, 30]) if rng.random() < 0.6 else rng.randint(1, 30)
    lows = [dy(rng, -8, 8, 4), dy(rng, 16, 32, 4)]
    widths = [rng.choice([1, 2, 4]), rng.choice([1, 3, 8])]
    cents = []
    while len(cents) < n:  # general position: random non-dyadic floats, well separated
        p = [lows[0] + rng.uniform(0.02, 0.98) * widths[0], lows[1] + rng.uniform(0.02, 0.98) * widths[1]]
        if all(abs(p[0] - c[0]) / widths[0] + abs(p[1] - c[1]) / widths[1] > 0.02 for c in cents):
            cents.append(p)
    idx = list(range(n))
    rng.shuffle(idx)
    pattern = pattern or rng.choice(CELL_PATTERNS)
    chosen = {"one": idx[:1], "full": idx, "empty": []}.get(pattern, idx[:rng.randint(1, max(1, n - 1))])
    same = gen_obj(rng, sc)
    ops = [{"c": c, "o": same if pattern == "equal" else gen_obj(rng, sc)} for c in chosen]
    if pattern != "equal":
        zero_obj(rng, sc, ops)
    cma = replaced_history(rng, sc, ops, "c") if pattern == "replaced" else None
    samples = gen_samples(rng, n, lows, widths)
    plots = []
    for tr in (False, True):
        v = gen_variant(rng, sc, tr=tr, clip=rng.random() < 0.25, plot_centroids=rng.random() < 0.2,
                        plot_samples=samples is not None and rng.random() < 0.6)
        v["cbar"] = rng.random() < 0.5
        plots.append(v)
    default_limits_first(pattern, plots)
    return {"kind": "cvt2", "lows": lows, "widths": widths, "centroids": cents, "samples": samples,
            "pattern": pattern, "oscale": sc,
            "cma": cma, "ops": ops, "plots": plots}


def read_poly(fg, n_before):
    from matplotlib.collections import PolyCollection
    pcs = [c for c in fg.ax.collections if isinstance(c, PolyCollection)]
    if len(pcs) != 1:
        return None, f"{len(pcs)} PolyCollection artists on the Axes"
    pc = pcs[0]
    return {"paths": [np.asarray(p.vertices).tolist() for p in pc.get_paths()],
            "fc": np.asarray(pc.get_facecolors()).tolist(),
            "clim": cbar_limits(fg.fig, n_before, horizontal=False),
            "xlim": tuple(F(v) for v in fg.ax.get_xlim()), "ylim": tuple(F(v) for v in fg.ax.get_ylim())}, None


def run_cvt2(case, view=None):
    import matplotlib.pyplot as plt
    from matplotlib.path import Path
    from ribs.archives import CVTArchive
    from ribs.visualize import cvt_archive_heatmap
    cents = np.asarray(case["centroids"], dtype=float)
    n = len(cents)
    ranges = [(lo, lo + w) for lo, w in zip(case["lows"], case["widths"])]
    a = build_cvt(case, n, ranges, cents)
    ops = case["ops"]
    add_ops(a, case, [op["o"] for op in ops], [list(a.centroids[op["c"]]) for op in ops])
    if view is None and a.samples is None:
        f = samples_refused(a, cvt_archive_heatmap, "cvt2")
        if f:
            return f
    data, frame = view_data(a, view, cvt_archive_heatmap)
    objs = [float(o) for o in data["objective"]]
    stored = {int(i): float(o) for i, o in zip(data["index"], data["objective"])}
    cmap = plt.get_cmap(CMAP)
    lo = [F(x) for x in a.lower_bounds]
    hi = [F(x) for x in a.upper_bounds]
    for k, v in plots_for(case, view):
        tr = bool(v["tr"])
        vmin, vmax = effective_limits(v, objs)
        where = f"cvt2 plot#{k} tr={int(tr)} vmin={vmin} vmax={vmax} clip={int(bool(v.get('clip')))}"
        where += view_tag(view)
        kw = {"transpose_measures": tr, "clip": bool(v.get("clip")), "plot_centroids": bool(v.get("plot_centroids")),
              "plot_samples": bool(v.get("plot_samples")) and a.samples is not None}
        cpts = a.centroids[:, ::-1] if tr else a.centroids
        markers = []
        if kw["plot_samples"]:
            spts = a.samples[:, ::-1] if tr else a.samples
            markers.append((spts[:, 0], spts[:, 1]))
        if kw["plot_centroids"]:
            markers.append((cpts[:, 0], cpts[:, 1]))
        obs, fail = call_both(cvt_archive_heatmap, a, v, kw, read_poly, where, vmin, vmax, frame=frame,
                              markers=markers)
        if fail:
            return fail
        # ---- ORACLE ONLY (not modelled: qhull polygons): every polygon holds exactly one centroid,
        # every centroid is covered
        pts = a.centroids[:, ::-1] if tr else a.centroids
        e_lo = min(objs) if vmin is None else vmin
        e_hi = max(objs) if vmax is None else vmax
        degenerate = e_lo == e_hi
        if degenerate:
            e_lo, e_hi = e_lo - 0.01, e_hi + 0.01
        covered = {}
        for pi, (verts, fc) in enumerate(zip(obs["paths"], obs["fc"])):
            verts = np.asarray(verts, dtype=float)
            if verts.ndim != 2 or len(verts) < 3:
                return Failure("oracle", f"{where}: polygon {pi} is degenerate ({len(verts)} vertices)")
            inside = [i for i in range(n) if Path(verts).contains_point(pts[i])]
            if len(inside) != 1:
                return Failure("oracle", f"{where}: polygon {pi} contains centroids {inside} (must be exactly one)")
            if inside[0] in covered:
                return Failure("oracle", f"{where}: centroid {inside[0]} lies in two polygons")
            if v.get("clip"):
                xd_, yd_ = (1, 0) if tr else (0, 1)
                eps = 1e-9 * max(1.0, float(max(abs(x) for x in lo + hi)))
                if not (np.all(verts[:, 0] >= float(lo[xd_]) - eps) and np.all(verts[:, 0] <= float(hi[xd_]) + eps) and
                        np.all(verts[:, 1] >= float(lo[yd_]) - eps) and np.all(verts[:, 1] <= float(hi[yd_]) + eps)):
                    return Failure("oracle", f"{where}: clip=True but polygon {pi} leaves the archive bounds")
            covered[inside[0]] = fc
        if set(covered) != set(range(n)):
            return Failure("oracle", f"{where}: centroids without a polygon: {sorted(set(range(n)) - set(covered))}")

        # ---- oracle: colours, blanks, limits
        def oracle():
            for i, fc in sorted(covered.items()):
                if i in stored:
                    t = min(1.0, max(0.0, (stored[i] - e_lo) / (e_hi - e_lo)))
                    want = cmap(t)
                    if not np.allclose(fc, want, atol=0.03 if degenerate else 1e-9, rtol=0):
                        return Failure("oracle", f"{where}: polygon of centroid {i} has face colour {fc}, the stored "
                                       f"objective {stored[i]} maps to {want}")
                elif fc[3] != 0.0:
                    return Failure("oracle", f"{where}: polygon of empty cell {i} is not blank: {fc}")
            xd, yd = (1, 0) if tr else (0, 1)
            if obs["xlim"] != (lo[xd], hi[xd]) or obs["ylim"] != (lo[yd], hi[yd]):
                return Failure("oracle", f"{where}: axis limits are not the archive bounds of the plotted dimensions")
            if obs["clim"] is not None:
                want = (F(e_lo), F(e_hi))
                # exactly equal limits are widened by the non-dyadic 0.01 in the precision of the given limit
                # (np.float32(0) - 0.01 is a float32): rounded relation there, exact everywhere else
                wtol_o = Fraction(1, 2**20) * max(Fraction(1), abs(want[0]), abs(want[1]))
                if (not degenerate and obs["clim"] != want) or \
                        (degenerate and not all(abs(g - w) <= wtol_o for g, w in zip(obs["clim"], want))):
                    return Failure("oracle", f"{where}: colour-bar limits {_short(obs['clim'])} != {_short(want)}")
            return None

        # ---- correspondence on the modelled part: colour assignment per centroid, limits
        def corr():
            line = drv().ask(f"cvt2 cells={n} vmin={vstr(vmin)} vmax={vstr(vmax)} el={el_str(data)}")
            if line.startswith("err"):
                return Failure("corr", f"{where}: model answered {line}")
            d = kvs(line)
            mcells = parse_optlist(d["cells"])
            mclim = parse_pair(d["clim"])
            for i in range(n):
                fc = covered[i]
                if mcells[i] is None:
                    if fc[3] != 0.0:
                        return Failure("corr", f"{where}: centroid {i} impl colour {fc}, model blank")
                elif not np.allclose(fc, cmap(float(mcells[i])), atol=0.03 if degenerate else 1e-9, rtol=0):
                    return Failure("corr", f"{where}: centroid {i} impl colour {fc}, model t={float(mcells[i])}")
                # the widening constant 0.01 is not a dyadic rational: rounded relation, tolerance 2^-40 * magnitude
            wtol = Fraction(1, 2**20) * max(Fraction(1), abs(mclim[0]), abs(mclim[1])) \
                if v.get("zero_kind") == "f32" else \
                max(Fraction(1, 10**12), Fraction(1, 2**40) * max(abs(mclim[0]), abs(mclim[1])))
            if not clim_corr(obs["clim"], mclim, tol=wtol if degenerate else None):
                return Failure("corr", f"{where}: clim impl={_short(obs['clim'])} model={_short(mclim)}")
            return None

        f = judge(oracle, corr, obs)
        if f:
            return f
    return None


# --------------------------------------------------------------------------
# scatter plots: sliding boundaries, proximity


def gen_points(rng, sc, lows, widths, n, spill):
    out = []
    for _ in range(n):
        m = [dy(rng, lo - (w if spill else 0), lo + w + (w if spill else 0), 16) for lo, w in zip(lows, widths)]
        out.append({"m": m, "o": gen_obj(rng, sc)})
    return out


def gen_sliding(rng, pattern=None, scale=None):
    sc = make_scale(rng, scale)
    dims = [rng.randint(1, 6), rng.randint(1, 6)]
    lows = [dy(rng, -8, 8, 4), dy(rng, 16, 32, 4)]
    widths = [rng.choice([1, 2, 4]), rng.choice([3, 8])]
    pattern = pattern or rng.choice(POINT_PATTERNS)
    n = {"one": 1, "few": rng.randint(2, 4)}.get(pattern, rng.randint(5, 30))
    ops = gen_points(rng, sc, lows, widths, n, spill=rng.random() < 0.2)
    zero_obj(rng, sc, ops)
    if pattern == "equal":
        for op in ops:
            op["o"] = ops[0]["o"]
    plots = [gen_variant(rng, sc, tr=tr, lw=rng.choice([0, 0.5, 0.5, 1.0])) for tr in (False, True)]
    return {"kind": "sliding", "dims": dims, "lows": lows, "widths": widths, "remap": rng.randint(2, 6),
            "buffer": rng.randint(4, 20), "pattern": pattern, "oscale": sc, "ops": ops, "plots": plots}


def run_sliding(case, view=None):
    from ribs.archives import SlidingBoundariesArchive
    from ribs.visualize import sliding_boundaries_archive_heatmap
    ranges = [(lo, lo + w) for lo, w in zip(case["lows"], case["widths"])]
    a = SlidingBoundariesArchive(solution_dim=1, dims=case["dims"], ranges=ranges,
                                 remap_frequency=case["remap"], buffer_capacity=case["buffer"])
    ops = case["ops"]
    a.add(np.arange(len(ops), dtype=float)[:, None], [op["o"] for op in ops], [op["m"] for op in ops])
    data, frame = view_data(a, view, sliding_boundaries_archive_heatmap)
    objs = [float(o) for o in data["objective"]]
    bnd = [[F(b) for b in bb] for bb in a.boundaries]
    lo = [F(x) for x in a.lower_bounds]
    hi = [F(x) for x in a.upper_bounds]
    meas = [(F(m[0]), F(m[1])) for m in data["measures"]]
    if any(not np.array_equal(b, np.linspace(r[0], r[1], d + 1)) for b, r, d in zip(a.boundaries, ranges, case["dims"])):
        stat("sliding:boundaries-remapped")
    for k, v in plots_for(case, view):
        tr = bool(v["tr"])
        vmin, vmax = effective_limits(v, objs)
        where = f"sliding plot#{k} tr={int(tr)} lw={v['lw']} vmin={vmin} vmax={vmax}"
        where += view_tag(view)
        obs, fail = call_both(sliding_boundaries_archive_heatmap, a, v,
                              {"transpose_measures": tr, "boundary_lw": v["lw"]},
                              lambda fg, n: read_scatter(fg.ax), where, vmin, vmax, frame=frame)
        if fail:
            return fail
        xd, yd = (1, 0) if tr else (0, 1)
        # ---- oracle
        def oracle():
            if obs["off"] != [(m[xd], m[yd]) for m in meas]:
                return Failure("oracle", f"{where}: marker positions are not the stored measures "
                               f"(x = measure {xd}, y = measure {yd}) in data() order")
            if obs["c"] != [F(o) for o in objs]:
                return Failure("oracle", f"{where}: marker colour array is not the stored objectives")
            if v["lw"] > 0:
                if [x for x, _ in obs["vert"]] != bnd[xd] or [y for y, _ in obs["horiz"]] != bnd[yd]:
                    return Failure("oracle", f"{where}: boundary lines are not the boundaries of the plotted dimensions: "
                                   f"vertical at {_short([x for x, _ in obs['vert']])}, boundaries[{xd}]="
                                   f"{_short(bnd[xd])}")
                if any(s != (lo[yd], hi[yd]) for _, s in obs["vert"]) or \
                        any(s != (lo[xd], hi[xd]) for _, s in obs["horiz"]):
                    return Failure("oracle", f"{where}: boundary lines do not span the archive bounds")
            elif obs["vert"] or obs["horiz"]:
                return Failure("oracle", f"{where}: boundary lines drawn with boundary_lw=0")
            if not lims_ok(obs["xlim"], (lo[xd], hi[xd])) or not lims_ok(obs["ylim"], (lo[yd], hi[yd])):
                return Failure("oracle", f"{where}: axis limits are not the archive bounds of the plotted dimensions")
            msg = clim_check(obs["clim"], vmin, vmax, objs, where, widened_ok=obs.get("_cbar", True))
            if msg:
                return Failure("oracle", msg)
            return None

        # ---- correspondence
        def corr():
            line = drv().ask(f"scatter tr={int(tr)} lo={ql(lo)} hi={ql(hi)} b={'|'.join(ql(b) for b in bnd)} "
                             f"vmin={vstr(vmin)} vmax={vstr(vmax)} el={el_str(data)}")
            f = cmp_scatter(obs, line, where, lines=v["lw"] > 0, lims=True)
            if f:
                return f
            return None

        f = judge(oracle, corr, obs)
        if f:
            return f
    return None


def cmp_scatter(obs, line, where, lines, lims):
    if line.startswith("err"):
        return Failure("corr", f"{where}: model answered {line}")
    d = kvs(line)
    moff = [] if d["off"] == "-" else [tuple(Fraction(t) for t in p.split(":")) for p in d["off"].split(",")]
    if obs["off"] != moff:
        return Failure("corr", f"{where}: offsets impl={_short(obs['off'])} model={_short(moff)}")
    if obs["c"] != parse_rats(d["c"]):
        return Failure("corr", f"{where}: colour array impl={_short(obs['c'])} model={d['c'][:200]}")
    if not clim_corr(obs["clim"], parse_pair(d["clim"]), widened_ok=obs.get("_cbar", True)):
        return Failure("corr", f"{where}: clim impl={_short(obs['clim'])} model={d['clim']}")
    if lims and not (lims_ok(obs["xlim"], parse_pair(d["xlim"])) and lims_ok(obs["ylim"], parse_pair(d["ylim"]))):
        return Failure("corr", f"{where}: axis limits impl={_short([obs['xlim'], obs['ylim']])} "
                       f"model={d['xlim']} {d['ylim']}")
    if lines:
        vs, hs = parse_pair(d["vspan"]), parse_pair(d["hspan"])
        if obs["vert"] != [(x, vs) for x in parse_rats(d["vx"])] or \
                obs["horiz"] != [(y, hs) for y in parse_rats(d["hy"])]:
            return Failure("corr", f"{where}: boundary lines impl={_short([obs['vert'], obs['horiz']])} "
                           f"model vx={d['vx']} hy={d['hy']}")
    return None


def gen_prox(rng, pattern=None, scale=None):
    sc = make_scale(rng, scale)
    lows = [dy(rng, -8, 8, 4), dy(rng, 16, 32, 4)]
    widths = [rng.choice([1, 2, 4]), rng.choice([3, 8])]
    pattern = pattern or rng.choice(POINT_PATTERNS)
    n = {"one": 1, "few": rng.randint(2, 4)}.get(pattern, rng.randint(5, 25))
    ops = gen_points(rng, sc, lows, widths, n, spill=False)
    zero_obj(rng, sc, ops)
    if pattern == "equal":
        for op in ops:
            op["o"] = ops[0]["o"]
    plots = [gen_variant(rng, sc, tr=tr, bounds=rng.random() < 0.5) for tr in (False, True)]
    return {"kind": "prox", "lows": lows, "widths": widths, "k": rng.randint(1, 3),
            "thr": rng.choice([0.0, 0.125, 0.5, 1.0]), "pattern": pattern, "oscale": sc, "ops": ops, "plots": plots}


def run_prox(case, view=None):
    from ribs.archives import ProximityArchive
    from ribs.visualize import proximity_archive_plot
    a = ProximityArchive(solution_dim=1, measure_dim=2, k_neighbors=case["k"], novelty_threshold=case["thr"],
                         initial_capacity=8)
    ops = case["ops"]
    for i, op in enumerate(ops):  # one call per candidate: admission depends on what is already stored
        a.add([[float(i)]], [op["o"]], [op["m"]])
    data, frame = view_data(a, view, proximity_archive_plot)
    objs = [float(o) for o in data["objective"]]
    meas = [(F(m[0]), F(m[1])) for m in data["measures"]]
    for k, v in plots_for(case, view):
        tr = bool(v["tr"])
        vmin, vmax = effective_limits(v, objs)
        where = f"prox plot#{k} tr={int(tr)} bounds={int(v['bounds'])} vmin={vmin} vmax={vmax}"
        where += view_tag(view)
        kw = {"transpose_measures": tr}
        if v["bounds"]:
            blo = np.array([lo - 1.0 for lo in case["lows"]])
            bhi = np.array([lo + w + 1.0 for lo, w in zip(case["lows"], case["widths"])])
            kw["lower_bounds"], kw["upper_bounds"] = blo, bhi
        obs, fail = call_both(proximity_archive_plot, a, v, kw, lambda fg, n: read_scatter(fg.ax), where,
                              vmin, vmax, frame=frame)
        if fail:
            return fail
        xd, yd = (1, 0) if tr else (0, 1)
        # ---- oracle
        def oracle():
            if obs["off"] != [(m[xd], m[yd]) for m in meas]:
                return Failure("oracle", f"{where}: marker positions are not the stored measures "
                               f"(x = measure {xd}, y = measure {yd}) in data() order")
            if obs["c"] != [F(o) for o in objs]:
                return Failure("oracle", f"{where}: marker colour array is not the stored objectives")
            if obs["vert"] or obs["horiz"]:
                return Failure("oracle", f"{where}: unexpected line collections")
            if v["bounds"]:
                if obs["xlim"] != (F(blo[xd]), F(bhi[xd])) or obs["ylim"] != (F(blo[yd]), F(bhi[yd])):
                    return Failure("oracle", f"{where}: axis limits are not the given bounds of the plotted dimensions")
            # (the default limits come from the archive: truncated integer measures of a frame may leave them)
            for x, y in obs["off"]:
                if view != "meas-int" and \
                        not (obs["xlim"][0] <= x <= obs["xlim"][1] and obs["ylim"][0] <= y <= obs["ylim"][1]):
                    return Failure("oracle", f"{where}: a marker lies outside the axis limits")
            msg = clim_check(obs["clim"], vmin, vmax, objs, where, widened_ok=obs.get("_cbar", True))
            if msg:
                return Failure("oracle", msg)
            return None

        # ---- correspondence
        def corr():
            if v["bounds"]:
                lo_s, hi_s = ql(blo), ql(bhi)
            else:
                lo_s, hi_s = "0,0", "0,0"
            line = drv().ask(f"scatter tr={int(tr)} lo={lo_s} hi={hi_s} vmin={vstr(vmin)} vmax={vstr(vmax)} "
                             f"el={el_str(data)}")
            f = cmp_scatter(obs, line, where, lines=False, lims=bool(v["bounds"]))
            if f:
                return f
            return None

        f = judge(oracle, corr, obs)
        if f:
            return f
    return None


# --------------------------------------------------------------------------
# parallel axes plot


def gen_parallel(rng, pattern=None, scale=None):
    sc = make_scale(rng, scale)
    pattern = pattern or rng.choice(POINT_PATTERNS)
    arch = rng.choice(["grid", "grid", "prox"])
    n = {"one": 1, "few": rng.randint(2, 4)}.get(pattern, rng.randint(5, 16))
    # MANY measures (11, 12, 23): with two-digit indices the column names measures_10, measures_11, ... no longer
    # sort like the indices (lexicographic hazard).  Chosen on a fixed (pattern, scale) combination of the cycles so
    # that every run has such cases (case indices 3, 13, 33, ... of the stratum).
    many_dims = pattern == "many" and scale == "negbig"
    if many_dims:
        n = min(n, 6)
    if arch == "grid":
        md = rng.choice([11, 12, 23]) if many_dims else rng.choice([1, 2, 2, 3, 3, 4])
        dims = ([1] * (md - 3) + [2, 2, 2]) if many_dims else [rng.randint(1, 4) for _ in range(md)]
        lows = [dy(rng, -8, 8, 4) for _ in range(md)]
        widths = [rng.choice([0.5, 1, 2, 4, 8]) for _ in range(md)]  # powers of two: the normalisation is exact
        ops = [{"m": [dy(rng, lo, lo + w, 16) for lo, w in zip(lows, widths)], "o": gen_obj(rng, sc)}
               for _ in range(n)]
    else:
        # ProximityArchive: its bounds are the min / max of the STORED measures, so a dimension in which all elites
        # share one value (always the case with exactly one elite) has lower_bounds == upper_bounds.  The other
        # dimensions contain both ends of a power-of-two range (exact normalisation).
        md = rng.choice([11, 12, 23]) if many_dims else rng.choice([1, 2, 3, 3, 4])
        dims = None
        lows = [dy(rng, -8, 8, 4) for _ in range(md)]
        widths = [rng.choice([0.5, 1, 2, 4, 8]) for _ in range(md)]
        if n == 1:
            flat = [True] * md
        else:
            if pattern == "few":
                n = 2
            flat = [rng.random() < (0.5 if pattern == "few" else 0.3) for _ in range(md)]
            if pattern == "few" and md >= 2 and not any(flat):
                flat[rng.randrange(md)] = True      # two elites sharing a coordinate
            if all(flat):
                flat[rng.randrange(md)] = False     # distinct points need one varying coordinate
        shared = [lo + w * rng.randint(0, 16) / 16 for lo, w in zip(lows, widths)]
        pts = []
        for i in range(n):
            m = []
            for d in range(md):
                if flat[d]:
                    m.append(shared[d])
                elif i < 2:
                    m.append(lows[d] + (widths[d] if i == 1 else 0.0))
                else:
                    m.append(lows[d] + widths[d] * rng.randint(0, 16) / 16)
            if m not in pts:
                pts.append(m)
        rng.shuffle(pts)
        ops = [{"m": m, "o": gen_obj(rng, sc)} for m in pts]
    zero_obj(rng, sc, ops)
    if pattern == "equal":
        for op in ops:
            op["o"] = ops[0]["o"]
    plots = []
    for sort in (True, False):
        order = None
        if rng.random() < 0.5:
            order = [rng.randrange(md) for _ in range(rng.randint(1, min(md, 6) + 1))]
            if many_dims:
                order[rng.randrange(len(order))] = rng.randrange(10, md)   # a two-digit measure index
        plots.append(gen_variant(rng, sc, sort=sort, order=order, named=rng.random() < 0.3))
    if many_dims:
        plots[rng.randrange(2)]["order"] = None     # all measures in order at least once
    return {"kind": "parallel", "arch": arch, "dims": dims, "lows": lows, "widths": widths, "pattern": pattern,
            "oscale": sc, "ops": ops, "plots": plots}


def read_parallel(ncols):
    def read(fg, n_before):
        import matplotlib.colors as mcolors
        lines = []
        for ln in fg.ax.get_lines():
            xs, ys = ln.get_data()
            if [float(x) for x in xs] != [float(i) for i in range(ncols)]:
                return None, f"line x data {list(xs)} is not 0..{ncols-1}"
            if not np.all(np.isfinite(np.asarray(ys, dtype=float))):
                return None, (f"a line has non-finite y data {[float(y) for y in ys]}: the elite's measures are "
                              f"not drawn on those axes")
            lines.append({"ys": [F(y) for y in ys], "rgba": [float(c) for c in mcolors.to_rgba(ln.get_color())]})
        axes = fg.fig.axes
        if len(axes) < n_before + ncols - 1:
            return None, f"{len(axes)} Axes for {ncols} measures"
        ylims = [tuple(F(v) for v in axes[i].get_ylim()) for i in range(ncols)]
        has_cbar = len(axes) > ncols
        clim = cbar_limits(fg.fig, ncols, horizontal=True) if has_cbar else None
        # where the axes stand: axis i (its right spine carries the ticks of measure cols[i]) at x = i, in the data
        # coordinates of the host axis, in which the lines have x data 0..ncols-1
        xlim = tuple(float(v) for v in axes[0].get_xlim())
        spine_x = [0.0]
        for i in range(1, ncols):
            pos = axes[i].spines["right"].get_position()
            if not (isinstance(pos, tuple) and pos[0] == "axes"):
                return None, f"axis {i}: right spine positioned by {pos!r}, not in Axes coordinates"
            spine_x.append(xlim[0] + float(pos[1]) * (xlim[1] - xlim[0]))
        return {"lines": lines, "ylims": ylims, "clim": clim, "xlim": xlim, "spine_x": spine_x,
                "xticks": [float(t) for t in axes[0].get_xticks()],
                "xlabels": [t.get_text() for t in axes[0].get_xticklabels()]}, None
    return read


def near(a, b, scale):
    """rounded relation (a non-dyadic constant is involved): |a - b| <= 2^-30 * scale."""
    return abs(a - b) <= Fraction(1, 2**30) * max(Fraction(1), abs(scale))


def run_parallel(case, view=None):
    import matplotlib.pyplot as plt
    from ribs.archives import GridArchive, ProximityArchive
    from ribs.visualize import parallel_axes_plot
    lows, widths = case["lows"], case["widths"]
    ops = case["ops"]
    if case.get("arch", "grid") == "grid":
        a = make_grid_archive(case, case["dims"], [(lo, lo + w) for lo, w in zip(lows, widths)])
        a.add(np.arange(len(ops), dtype=float)[:, None], [op["o"] for op in ops], [op["m"] for op in ops])
    else:
        a = ProximityArchive(solution_dim=1, measure_dim=len(lows), k_neighbors=1, novelty_threshold=0.0,
                             initial_capacity=8)
        for i, op in enumerate(ops):
            a.add([[float(i)]], [op["o"]], [op["m"]])
    data, frame = view_data(a, view, parallel_axes_plot)
    objs = [float(o) for o in data["objective"]]
    rows = [(F(o), [F(x) for x in m]) for o, m in zip(data["objective"], data["measures"])]
    lo = [F(x) for x in a.lower_bounds]
    hi = [F(x) for x in a.upper_bounds]
    cmap = plt.get_cmap(CMAP)
    for k, v in plots_for(case, view):
        sort = bool(v["sort"])
        order = v["order"]
        cols = list(range(len(lows))) if order is None else list(order)
        vmin, vmax = effective_limits(v, objs)
        where = (f"parallel[{case.get('arch', 'grid')}] plot#{k} sort={int(sort)} order={order} vmin={vmin} "
                 f"vmax={vmax}")
        where += view_tag(view)
        kw = {"sort_archive": sort, "measure_order": None}
        if order is not None:
            kw["measure_order"] = [(c, f"m{c}") for c in order] if v.get("named") else list(order)
        obs, fail = call_both(parallel_axes_plot, a, v, kw, read_parallel(len(cols)), where, vmin, vmax, frame=frame,
                              twin_axes=len(cols) - 1, markers=None)
        if fail:
            return fail
        # an axis whose archive bounds coincide (all stored measures share the value) cannot be drawn with these
        # limits: the property only asks that the limits contain the value; exact comparison elsewhere
        flat = [lo[c] == hi[c] for c in cols]
        if any(flat):
            stat("parallel:zero-range axis plotted")
        scale = max([abs(x) for x in lo + hi] + [Fraction(1)])

        def same(xs, ys):
            if any(flat):
                return len(xs) == len(ys) and all(near(x, y, scale) for x, y in zip(xs, ys))
            return list(xs) == list(ys)

        # ---- oracle: what a viewer reads off the axes
        def oracle():
            for i, c in enumerate(cols):
                yl = obs["ylims"][i]
                if not flat[i]:
                    if yl != (lo[c], hi[c]):
                        return Failure("oracle", f"{where}: axis {i} spans {_short(yl)}, measure {c} has "
                                       f"bounds {float(lo[c])},{float(hi[c])}")
                elif not (yl[0] < yl[1] and yl[0] <= lo[c] <= yl[1]):
                    return Failure("oracle", f"{where}: axis {i} spans {_short(yl)}, which does not contain the "
                                   f"stored value {float(lo[c])} of measure {c}")
            if len(obs["lines"]) != len(rows):
                return Failure("oracle", f"{where}: {len(obs['lines'])} lines for {len(rows)} elites")
            # geometry of the axes: the line of an elite meets axis i at x = i, so axis i must stand at x = i and
            # carry the label of measure cols[i]
            ncols = len(cols)
            if ncols > 1 and obs["xlim"] != (0.0, float(ncols - 1)):
                return Failure("oracle", f"{where}: x limits {obs['xlim']} of the host axis, expected (0, {ncols - 1})")
            if any(abs(x - i) > 1e-9 for i, x in enumerate(obs["spine_x"])):
                return Failure("oracle", f"{where}: the axes of measures {cols} stand at x = "
                               f"{[round(x, 6) for x in obs['spine_x']]}, the lines meet them at x = "
                               f"{list(range(ncols))}")
            want_labels = [f"m{c}" for c in cols] if (order is not None and v.get("named")) else \
                [f"measure_{c}" for c in cols]
            if obs["xticks"] != [float(i) for i in range(ncols)] or obs["xlabels"] != want_labels:
                return Failure("oracle", f"{where}: axis ticks {obs['xticks']} labelled {obs['xlabels']}, expected "
                               f"{want_labels} at 0..{ncols - 1}")
            h0, h1 = obs["ylims"][0]
            if h0 == h1:
                return Failure("oracle", f"{where}: the host axis has zero height")
            e_lo = F(min(objs) if vmin is None else vmin)
            e_hi = F(max(objs) if vmax is None else vmax)

            def colour_of(o):
                t = Fraction(0) if e_lo == e_hi else min(Fraction(1), max(Fraction(0), (o - e_lo) / (e_hi - e_lo)))
                return cmap(float(t))
            # de-normalise: relative height on the host axis -> value shown by axis i at that height
            readings = []
            for ln in obs["lines"]:
                rd = []
                for i, c in enumerate(cols):
                    frac = (ln["ys"][i] - h0) / (h1 - h0)
                    yl = obs["ylims"][i]
                    rd.append(yl[0] + frac * (yl[1] - yl[0]))
                readings.append(rd)
            expected = sorted(rows, key=lambda r: r[0]) if sort else rows
            for j, (ln, rd) in enumerate(zip(obs["lines"], readings)):
                cands = [r for r in rows if r[0] == expected[j][0]] if sort else [expected[j]]
                ok = any(same([r[1][c] for c in cols], rd) and np.allclose(ln["rgba"][:3], colour_of(r[0])[:3],
                                                                           atol=1e-9, rtol=0) for r in cands)
                if not ok:
                    return Failure("oracle", f"{where}: line {j} reads measures {_short(rd)} colour "
                                   f"{[round(c, 4) for c in ln['rgba'][:3]]}; expected elite(s) "
                                   f"{_short([([r[1][c] for c in cols], r[0]) for r in cands][:3])} with colour "
                                   f"{[round(float(c), 4) for c in colour_of(cands[0][0])[:3]]} (axis limits "
                                   f"{_short(obs['ylims'])})")
            left = [[r[1][c] for c in cols] for r in rows]
            for rd in readings:
                hit = next((w for w in left if same(w, rd)), None)
                if hit is None:
                    return Failure("oracle", f"{where}: the lines are not one per stored elite")
                left.remove(hit)
            if obs["clim"] is not None:
                msg = clim_check(obs["clim"], vmin, vmax, objs, where, widened_ok=obs.get("_cbar", True))
                if msg:
                    return Failure("oracle", msg)
            return None

        # ---- correspondence
        def corr():
            line = drv().ask(f"par los={ql(lo)} his={ql(hi)} order={'none' if order is None else ','.join(map(str, order))} "
                             f"sort={int(sort)} vmin={vstr(vmin)} vmax={vstr(vmax)} el={el_str(data)}")
            if line.startswith("err"):
                return Failure("corr", f"{where}: model answered {line}")
            d = kvs(line)
            mlines = []
            if d["lines"] != "-":
                for s in d["lines"].split("|"):
                    o, t, ys = s.split(":")
                    mlines.append((Fraction(o), Fraction(t), parse_rats(ys)))
            if len(mlines) != len(obs["lines"]):
                return Failure("corr", f"{where}: {len(obs['lines'])} lines, model {len(mlines)}")
            maxes = [] if d.get("axes", "-") == "-" else [parse_pair(t) for t in d["axes"].split("|")]
            if len(maxes) != len(cols) or not all(same(list(a_), list(b_)) for a_, b_ in zip(obs["ylims"], maxes)):
                return Failure("corr", f"{where}: axis limits impl={_short(obs['ylims'])} model={_short(maxes)}")
            for j, ln in enumerate(obs["lines"]):
                cands = [m for m in mlines if m[0] == mlines[j][0]] if sort else [mlines[j]]
                if not any(same(m[2], ln["ys"]) and np.allclose(ln["rgba"][:3], cmap(float(m[1]))[:3], atol=1e-9,
                                                                rtol=0) for m in cands):
                    return Failure("corr", f"{where}: line {j} impl ys={_short(ln['ys'])} rgba={ln['rgba'][:3]} "
                                   f"model={_short([(m[2], m[1]) for m in cands][:3])}")
            left = [m[2] for m in mlines]
            for ln in obs["lines"]:
                hit = next((w for w in left if same(w, ln["ys"])), None)
                if hit is None:
                    return Failure("corr", f"{where}: multiset of lines differs from the model")
                left.remove(hit)
            if not clim_corr(obs["clim"], parse_pair(d["clim"])):
                return Failure("corr", f"{where}: clim impl={_short(obs['clim'])} model={d['clim']}")
            return None

        f = judge(oracle, corr, obs)
        if f:
            return f
    return None


# --------------------------------------------------------------------------

RUNNERS = {"grid1": run_grid, "grid2": run_grid, "cvt1": run_cvt1, "cvt2": run_cvt2, "sliding": run_sliding,
           "prox": run_prox, "parallel": run_parallel}


def run_case(case):
    if not case.get("ops") and case["kind"] in ("sliding", "prox", "parallel"):
        return None  # these are never generated empty (the shrinker may ask)
    stat(f"content:{case['kind']}:{case.get('pattern')}")
    stat(f"objectives:{(case.get('oscale') or {}).get('name', 'coarse')}")
    if any(op.get("o") == 0.0 for op in case["ops"]):
        stat(f"objectives:{case['kind']}:a stored objective is exactly 0.0")
    if case.get("arch"):
        stat(f"content:{case['kind']}:archive={case['arch']}")
    if case["kind"] == "parallel" and len(case["lows"]) >= 11:
        stat(f"content:parallel:{len(case['lows'])} measures")
    try:
        f = RUNNERS[case["kind"]](case)
        if f:
            return f
        # second pass: the variants that also pass a modified frame as df= (the archive is rebuilt per mode)
        for mode in sorted({v["dfmode"] for v in case["plots"] if v.get("dfmode")}):
            f = RUNNERS[case["kind"]](case, mode)
            if f:
                return f
        # third pass: ONE frame object, looked at, then edited in place and plotted again (twice)
        ru = case.get("reuse")
        if ru and case["ops"] and case["plots"]:
            view = Reuse(ru)
            for step in ru["steps"]:
                view.step = step
                stat(f"reuse:{case['kind']}:plot of a frame edited in place after its first use")
                f = RUNNERS[case["kind"]](case, view)
                if f:
                    return f
        return None
    finally:
        import matplotlib.pyplot as plt
        plt.close("all")


def nontrivial(case):
    objs = {op["o"] for op in case["ops"]}
    return len(case["ops"]) >= 1 and (len(objs) >= 2 or len(case["ops"]) == 1)


def observations(ctx):
    """Behaviour outside the property's quantifier, recorded (not judged)."""
    import matplotlib.pyplot as plt
    from ribs.archives import CVTArchive, GridArchive
    from ribs.visualize import cvt_archive_heatmap, grid_archive_heatmap
    warnings.simplefilter("ignore")

    def attempt(f):
        fig = plt.figure(figsize=(2, 1.5), dpi=40)
        try:
            f(fig.add_subplot())
            return "ok"
        except Exception as e:  # pylint: disable=broad-except
            return f"{type(e).__name__}: {str(e)[:80]}"
        finally:
            plt.close("all")
    c1 = CVTArchive(solution_dim=1, cells=1, ranges=[(0, 1)], custom_centroids=[[0.5]])
    c1.add([[0.0]], [2.0], [[0.5]])
    ctx.notes.append("observation (not judged): cvt_archive_heatmap on a 1-D CVTArchive with a single centroid -> "
                     + attempt(lambda ax: cvt_archive_heatmap(c1, ax, cbar=None)))
    g2 = GridArchive(solution_dim=1, dims=[2, 3], ranges=[(0, 1), (0, 1)])
    ctx.notes.append("observation (not judged): grid_archive_heatmap on an entirely empty 2-D archive with default "
                     "limits -> " + attempt(lambda ax: grid_archive_heatmap(g2, ax, cbar=None)))


def run(ctx):
    import matplotlib
    matplotlib.use("Agg")
    plan = [  # stratum, generator, patterns, cases quick / thorough, time budget quick / thorough (s), subclass
        ("grid2", lambda r, p, s: gen_grid(r, False, p, s), CELL_PATTERNS, 36, 600, 8.0, 60.0, False),
        ("grid1", lambda r, p, s: gen_grid(r, True, p, s), CELL_PATTERNS, 40, 600, 4.0, 40.0, False),
        # the same generators, the archive being a user subclass of GridArchive with non-uniform cells
        ("grid2-sub", lambda r, p, s: gen_grid(r, False, p, s), CELL_PATTERNS, 16, 300, 3.5, 30.0, True),
        ("grid1-sub", lambda r, p, s: gen_grid(r, True, p, s), CELL_PATTERNS, 12, 200, 1.5, 15.0, True),
        ("cvt1", gen_cvt1, CELL_PATTERNS, 36, 550, 4.5, 45.0, False),
        ("cvt2", gen_cvt2, CELL_PATTERNS, 26, 400, 4.5, 50.0, False),
        ("sliding", gen_sliding, POINT_PATTERNS, 30, 450, 4.0, 45.0, False),
        ("prox", gen_prox, POINT_PATTERNS, 26, 400, 4.0, 40.0, False),
        ("parallel", gen_parallel, POINT_PATTERNS, 22, 320, 7.5, 80.0, False),
        ("parallel-sub", gen_parallel, POINT_PATTERNS, 6, 60, 2.0, 15.0, True),
    ]
    deadline = 50.0 if ctx.quick else 420.0  # wall seconds since the start of the check (build + audit included)
    for name, gen, pats, nq, nt, bq, bt, sub in plan:
        counter = [0]

        def gen_k(rng, gen=gen, pats=pats, counter=counter, sub=sub):
            # explore() draws cases in index order, so content pattern and objective scale are functions of the
            # case index (cycle lengths are coprime: every combination occurs)
            pat = pats[counter[0] % len(pats)]
            scale = OBJ_SCALES[counter[0] % len(OBJ_SCALES)]
            counter[0] += 1
            case = gen(rng, pat, scale)
            # drawn last from the per-case generator (the draws above are those of the earlier rounds)
            if sub and case.get("arch", "grid") == "grid":
                case["sub"] = gen_sub(rng, case["dims"], case["lows"], case["widths"])
            case["reuse"] = gen_reuse(rng, case)
            return case
        # corpus cases of the stratum are replayed whatever the budget
        budget = max(0.5, min(bq if ctx.quick else bt, deadline - ctx.elapsed()))
        ctx.explore(name, gen_k, run_case, ctx.n(nq, nt), nontrivial=nontrivial, time_budget=budget)
    for k, v in sorted(STATS.items()):
        ctx.count("stat:" + k, v)
    try:
        observations(ctx)
    except Exception as e:  # pylint: disable=broad-except
        ctx.notes.append(f"observations failed: {type(e).__name__}: {e}")


def replay(ctx, case):
    return run_case(case)
