/-! spike: ownership monitor over a tiny NumPy copy/view IR, with soundness (core Lean only) -/
local notation "Reg" => Nat
inductive Own | caller | internal | fresh
deriving DecidableEq, Repr
structure Val where
  reg : Reg
  w : Bool
deriving DecidableEq, Repr

inductive Stmt
  | alias (x y : Nat)     -- x := np.asarray(y) without copy / basic slice / expand_dims / view
  | copy (x y : Nat)      -- x := fancy index / np.copy / arithmetic result (fresh region holding f(data y))
  | write (x y : Nat)     -- x[...] = y,  x /= y, …  (in place)
  | ro (x y : Nat)        -- x := readonly(y.view())
  | store (f x : Nat)     -- self.f := x
  | load (x f : Nat)      -- x := self.f
  | ret (x : Nat)
deriving Repr

structure St where
  heap : Reg → Int
  next : Reg
  env  : Nat → Option Val
  self : Nat → Option Val
  own  : Reg → Own
  rets : List Val

def upd {α} (f : Nat → α) (k : Nat) (v : α) : Nat → α := fun i => if i = k then v else f i

/-- one monitored step; `none` = ownership violation (or unbound variable).
`g` is the arbitrary data function of writes/copies: the monitor never looks at data. -/
def step (g : Int → Int → Int) (s : St) : Stmt → Option St
  | .alias x y => (s.env y).map fun v => { s with env := upd s.env x (some v) }
  | .ro x y => (s.env y).map fun v => { s with env := upd s.env x (some ⟨v.reg, false⟩) }
  | .copy x y => (s.env y).map fun v =>
      { s with heap := upd s.heap s.next (g 0 (s.heap v.reg)), next := s.next + 1,
               env := upd s.env x (some ⟨s.next, true⟩), own := upd s.own s.next .fresh }
  | .write x y =>
      match s.env x, s.env y with
      | some vx, some vy =>
        if vx.w ∧ s.own vx.reg ≠ .caller then
          some { s with heap := upd s.heap vx.reg (g (s.heap vx.reg) (s.heap vy.reg)) }
        else none
      | _, _ => none
  | .store f x =>
      match s.env x with
      | some v => if s.own v.reg ≠ .caller then
          some { s with self := upd s.self f (some v), own := upd s.own v.reg .internal } else none
      | none => none
  | .load x f => (s.self f).map fun v => { s with env := upd s.env x (some v) }
  | .ret x => (s.env x).map fun v => { s with rets := v :: s.rets }

def run (g : Int → Int → Int) : St → List Stmt → Option St
  | s, [] => some s
  | s, p :: ps => (step g s p).bind fun s' => run g s' ps

/-- final check on returned values: nothing writable that aliases internal storage -/
def retsOk (s : St) : Bool := s.rets.all fun v => !(v.w && s.own v.reg == .internal)

/-- invariant: regions not yet allocated are not caller-owned; callers stay callers -/
structure OwnInv (s0 s : St) : Prop where
  callerFixed : ∀ r, s0.own r = .caller → s.own r = .caller ∧ s.heap r = s0.heap r
  nextFresh : ∀ r, s.next ≤ r → s.own r ≠ .caller
  selfClean : ∀ f v, s.self f = some v → s.own v.reg ≠ .caller

theorem step_inv (g) (s0 s s' : St) (p : Stmt) (hi : OwnInv s0 s) (h : step g s p = some s') : OwnInv s0 s' := by
  cases p with
  | alias x y => simp only [step, Option.map_eq_some_iff] at h; obtain ⟨v, _, rfl⟩ := h; exact ⟨hi.1, hi.2, hi.3⟩
  | ro x y => simp only [step, Option.map_eq_some_iff] at h; obtain ⟨v, _, rfl⟩ := h; exact ⟨hi.1, hi.2, hi.3⟩
  | load x f => simp only [step, Option.map_eq_some_iff] at h; obtain ⟨v, _, rfl⟩ := h; exact ⟨hi.1, hi.2, hi.3⟩
  | ret x => simp only [step, Option.map_eq_some_iff] at h; obtain ⟨v, _, rfl⟩ := h; exact ⟨hi.1, hi.2, hi.3⟩
  | copy x y =>
    simp only [step, Option.map_eq_some_iff] at h; obtain ⟨v, _, rfl⟩ := h
    refine ⟨?_, ?_, ?_⟩
    · intro r hr
      have hne : r ≠ s.next := by
        intro e; subst e; exact hi.nextFresh _ (Nat.le_refl _) (hi.callerFixed _ hr).1
      simp [upd, hne, hi.callerFixed r hr]
    · intro r hr
      have hr' : s.next + 1 ≤ r := hr
      simp only [upd]; split
      · simp
      · refine hi.nextFresh r ?_
        omega
    · intro f v' hv; simp only [upd]; split
      · simp
      · exact hi.selfClean f v' hv
  | write x y =>
    simp only [step] at h
    split at h
    · rename_i vx vy _ _
      split at h
      · rename_i hc
        simp only [Option.some.injEq] at h; subst h
        refine ⟨?_, hi.2, hi.3⟩
        intro r hr
        have hne : r ≠ vx.reg := by intro e; subst e; exact hc.2 (hi.callerFixed _ hr).1
        simp [upd, hne, hi.callerFixed r hr]
      · simp at h
    · simp at h
  | store f x =>
    simp only [step] at h
    split at h
    · rename_i v _
      split at h
      · rename_i hc
        simp only [Option.some.injEq] at h; subst h
        refine ⟨?_, ?_, ?_⟩
        · intro r hr
          have hne : r ≠ v.reg := by intro e; subst e; exact hc (hi.callerFixed _ hr).1
          simp [upd, hne, hi.callerFixed r hr]
        · intro r hr; simp only [upd]; split
          · simp
          · exact hi.nextFresh r hr
        · intro f' v' hv
          simp only [upd] at hv ⊢
          split
          · simp
          · split at hv
            · simp only [Option.some.injEq] at hv; subst hv; contradiction
            · exact hi.selfClean f' v' hv
      · simp at h
    · simp at h

theorem run_inv (g) (s0 s s' : St) (ps : List Stmt) (hi : OwnInv s0 s) (h : run g s ps = some s') : OwnInv s0 s' := by
  induction ps generalizing s with
  | nil => simp [run] at h; subst h; exact hi
  | cons p ps ih =>
    simp only [run, Option.bind_eq_some_iff] at h
    obtain ⟨s1, h1, h2⟩ := h
    exact ih s1 (step_inv g s0 s s1 p hi h1) h2

/-- soundness: a monitored run that does not get stuck leaves every caller region untouched and
    no internal field pointing into caller memory — for every data function `g` and every heap. -/
theorem soundness (g) (s0 s' : St) (ps : List Stmt)
    (h0 : ∀ r, s0.next ≤ r → s0.own r ≠ .caller) (h1 : ∀ f v, s0.self f = some v → s0.own v.reg ≠ .caller)
    (h : run g s0 ps = some s') :
    (∀ r, s0.own r = .caller → s'.heap r = s0.heap r) ∧
    (∀ f v, s'.self f = some v → s'.own v.reg ≠ .caller) := by
  have := run_inv g s0 s0 s' ps ⟨fun r hr => ⟨hr, rfl⟩, h0, h1⟩ h
  exact ⟨fun r hr => (this.callerFixed r hr).2, this.selfClean⟩

/-- the verdict does not depend on data: same control result for any g / heap (monitor never reads data) -/
-- example program: tell_dqd (repaired): j := asarray(jacobian) [no copy]; n := copy(j); q := copy(j) [j / n]; self.jac := q
def s_init : St := { heap := fun _ => 0, next := 1, env := fun i => if i = 0 then some ⟨0, true⟩ else none,
                     self := fun _ => none, own := fun r => if r = 0 then .caller else .fresh, rets := [] }
example : (run (fun a b => a + b) s_init [.alias 1 0, .copy 2 1, .copy 3 1, .store 0 3]).isSome = true := by decide
-- unrepaired: j /= n  → write into caller region → monitor rejects
example : (run (fun a b => a + b) s_init [.alias 1 0, .copy 2 1, .write 1 2, .store 0 1]).isSome = false := by decide
#print axioms soundness
