import PyribsModel
/-! Line-protocol driver: `driver <machine>`; one request line in, one response line out. -/
open Pyribs

partial def loop {σ : Type} (step : σ → List String → σ × String)
    (hin hout : IO.FS.Stream) (s : σ) : IO Unit := do
  let line ← hin.getLine
  if line.isEmpty then return ()
  let toks := (line.trimAscii.toString.splitOn " ").filter (· ≠ "")
  let (s', out) := step s toks
  hout.putStrLn out
  hout.flush
  loop step hin hout s'

def main (args : List String) : IO UInt32 := do
  let hin ← IO.getStdin
  let hout ← IO.getStdout
  match args with
  | ["store"] => loop StoreDrv.step hin hout StoreDrv.init; return 0
  | ["arch"] => loop ArchDrv.step hin hout ArchDrv.init; return 0
  | ["prox"] => loop ProximityDrv.step hin hout ProximityDrv.init; return 0
  | ["sliding"] => loop SlidingDrv.step hin hout SlidingDrv.init; return 0
  | ["idx"] => loop IdxDrv.step hin hout IdxDrv.init; return 0
  | ["cqd"] => loop CqdDrv.step hin hout CqdDrv.init; return 0
  | ["esctl"] => loop EsControlDrv.step hin hout EsControlDrv.init; return 0
  | ["viz"] => loop VizDrv.step hin hout VizDrv.init; return 0
  | ["ranker"] => loop RankerDrv.step hin hout RankerDrv.init; return 0
  | ["sched"] => loop SchedulerDrv.step hin hout SchedulerDrv.init; return 0
  | ["opt"] => loop OptDrv.step hin hout OptDrv.init; return 0
  | ["bandit"] => loop BanditDrv.step hin hout BanditDrv.init; return 0
  | ["alias"] => loop AliasDrv.step hin hout AliasDrv.init; return 0
  | ["emit"] => loop EmitDrv.step hin hout EmitDrv.init; return 0
  | ["dqd"] => loop DqdDrv.step hin hout DqdDrv.init; return 0
  | _ => IO.eprintln "usage: driver <machine>"; return 2
