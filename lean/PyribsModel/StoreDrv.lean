import PyribsModel.Store
/-! Line-protocol machine for the `Store` model (rows are tokens : Nat). -/
namespace Pyribs.StoreDrv
open Pyribs Store

structure St where
  s     : Store Nat
  iters : List (Nat × Iter)

def init : St := ⟨Store.empty 0, []⟩

def parseXf : String → Option Xf
  | "ident" => some .ident
  | "dropOcc" => some .dropOcc
  | "keepOcc" => some .keepOcc
  | "rev" => some .rev
  | "dupFirst" => some .dupFirst
  | "dropAll" => some .dropAll
  | _ => none

def parsePair (t : String) : Option (Nat × Nat) :=
  match t.splitOn ":" with
  | [i, r] => do let i ← i.toNat?; let r ← r.toNat?; pure (i, r)
  | _ => none

def showErr : Err → String
  | .index => "err index"
  | .value => "err value"
  | .runtime => "err runtime"
  | .stop => "err stop"

def showRow : Option Nat → String := showOpt toString

def dump (s : Store Nat) : String :=
  s!"cap={s.cap} len={s.len} olist={showNatList s.olist} " ++
  s!"occ={showNatList ((List.range s.cap).filter s.occupied)} " ++
  s!"data={showList (fun p => s!"{p.1}:{showRow p.2}") s.data}"

def step (st : St) (toks : List String) : St × String :=
  match toks with
  | ["new", c] =>
    match c.toNat? with
    | some c => (⟨Store.empty c, []⟩, "ok")
    | none => (st, "bad-op")
  | "add" :: xfs :: rows =>
    match parseListWith parseXf xfs, rows.mapM parsePair with
    | some xs, some ws =>
      ({ st with s := addWith st.s xs ws },
        match addErr st.s xs ws with | none => "ok" | some e => showErr e)
    | _, _ => (st, "bad-op")
  | ["badadd"] =>
    -- length / key mismatch detected after the transforms: ValueError, only the add counter moved
    ({ st with s := { st.s with adds := st.s.adds + 1 } }, "err value")
  | ["clear"] => ({ st with s := st.s.clear }, "ok")
  | ["resize", c] =>
    match c.toNat? with
    | some c =>
      match st.s.resize c with
      | .ok s' => ({ st with s := s' }, "ok")
      | .error e => (st, showErr e)
    | none => (st, "bad-op")
  | ["retrieve", idx] =>
    match parseNatList idx with
    | some idx => (st, showList showRow (st.s.retrieve idx))
    | none => (st, "bad-op")
  | ["state"] => (st, dump st.s)
  | ["iter", "new", k] =>
    match k.toNat? with
    | some k => ({ st with iters := (k, st.s.iter) :: st.iters.filter (·.1 ≠ k) }, "ok")
    | none => (st, "bad-op")
  | ["iter", "next", k] =>
    match k.toNat? with
    | some k =>
      match st.iters.find? (·.1 = k) with
      | some (_, it) =>
        let (r, it') := it.next st.s
        ({ st with iters := (k, it') :: st.iters.filter (·.1 ≠ k) },
          match r with
          | .ok (i, row) => s!"{i}:{showRow row}"
          | .error e => showErr e)
      | none => (st, "bad-op")
    | none => (st, "bad-op")
  | ["raw"] => ({ st with s := fromRaw (asRaw st.s) }, "ok")
  | _ => (st, "bad-op")

end Pyribs.StoreDrv
