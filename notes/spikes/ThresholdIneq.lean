import Mathlib.Tactic.Linarith
import Mathlib.Tactic.Ring
import Mathlib.Tactic.FieldSimp
import Mathlib.Tactic.Positivity
import Mathlib.Algebra.Order.Field.Rat

-- threshold never decreases: r in [0,1], m >= t  => r*t + (1-r)*m >= t
example (r t m : Rat) (h0 : 0 ≤ r) (h1 : r ≤ 1) (hm : t ≤ m) : t ≤ r * t + (1 - r) * m := by
  nlinarith [mul_nonneg (sub_nonneg.mpr h1) (sub_nonneg.mpr hm)]
example (r t m : Rat) (h0 : 0 ≤ r) (h1 : r ≤ 1) (hm : t ≤ m) : r * t + (1 - r) * m ≤ m := by
  nlinarith [mul_nonneg h0 (sub_nonneg.mpr hm)]
example (a : Rat) (k : Nat) (h0 : 0 ≤ a) (h1 : a ≤ 1) : (1 - a)^k ≤ 1 := by
  apply pow_le_one₀ <;> linarith
