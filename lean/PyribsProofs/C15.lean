import PyribsModel.Sliding
import PyribsProofs.C07
import PyribsProofs.C03
/-!
# C15 — SlidingBoundariesArchive remaps consistently and loses nothing it should keep
-/
namespace Pyribs.C15
open Pyribs Arch Sliding

/-! ## the sorted measure lists -/

theorem insertSorted_perm (x : Rat) (l : List Rat) : (insertSorted x l).Perm (x :: l) := by
  induction l with
  | nil => simp [insertSorted]
  | cons y ys ih =>
    simp only [insertSorted]
    split
    · exact List.Perm.refl _
    · exact (List.Perm.cons y ih).trans (List.Perm.swap x y ys)

theorem insertionSort_perm (l : List Rat) : (insertionSort l).Perm l := by
  induction l with
  | nil => simp [insertionSort]
  | cons x xs ih => exact (insertSorted_perm x _).trans (List.Perm.cons x ih)

theorem insertSorted_sorted (x : Rat) (l : List Rat) (h : l.Pairwise (· ≤ ·)) :
    (insertSorted x l).Pairwise (· ≤ ·) := by
  induction l with
  | nil => simp [insertSorted]
  | cons y ys ih =>
    obtain ⟨hy, hys⟩ := List.pairwise_cons.mp h
    simp only [insertSorted]
    split
    · rename_i hxy
      refine List.pairwise_cons.mpr ⟨?_, h⟩
      intro z hz
      rcases List.mem_cons.mp hz with rfl | hz
      · exact hxy
      · exact le_trans hxy (hy z hz)
    · rename_i hxy
      refine List.pairwise_cons.mpr ⟨?_, ih hys⟩
      intro z hz
      have := (insertSorted_perm x ys).subset hz
      rcases List.mem_cons.mp this with rfl | hz'
      · exact le_of_lt (not_le.mp hxy)
      · exact hy z hz'

theorem insertionSort_sorted (l : List Rat) : (insertionSort l).Pairwise (· ≤ ·) := by
  induction l with
  | nil => simp [insertionSort]
  | cons x xs ih => exact insertSorted_sorted x _ ih

theorem insertionSort_length (l : List Rat) : (insertionSort l).length = l.length :=
  (insertionSort_perm l).length_eq

/-! ## T15.1 boundaries are evenly spaced order statistics and stay sorted -/

theorem getD_eq_getElem' (l : List Rat) (d : Rat) (n : Nat) (hn : n < l.length) : l.getD n d = l[n] := by
  simp [List.getD_eq_getElem?_getD, List.getElem?_eq_getElem hn]

theorem sorted_getD_mono (l : List Rat) (h : l.Pairwise (· ≤ ·)) (i j : Nat) (hij : i ≤ j)
    (hj : j < l.length) : l.getD i 0 ≤ l.getD j 0 := by
  have hi : i < l.length := by omega
  rw [getD_eq_getElem' _ _ _ hi, getD_eq_getElem' _ _ _ hj]
  rcases Nat.eq_or_lt_of_le hij with rfl | hlt
  · exact le_refl _
  · exact List.pairwise_iff_getElem.mp h i j hi hj hlt

theorem rank_lt (j n d : Nat) (hj : j < d) (hn : 0 < n) : j * n / d < n := by
  have hd : 0 < d := by omega
  rw [Nat.div_lt_iff_lt_mul hd]
  calc j * n < d * n := Nat.mul_lt_mul_of_pos_right hj hn
    _ = n * d := Nat.mul_comm _ _

theorem rank_mono (j j' n d : Nat) (h : j ≤ j') : j * n / d ≤ j' * n / d :=
  Nat.div_le_div_right (Nat.mul_le_mul_right _ h)

theorem remapBoundaries_length (sorted : List Rat) (d : Nat) : (remapBoundaries sorted d).length = d + 1 := by
  simp [remapBoundaries]

/-- **T15.1** the boundaries of a dimension are non-decreasing -/
theorem remapBoundaries_sorted (sorted : List Rat) (hs : sorted.Pairwise (· ≤ ·)) (hne : sorted ≠ [])
    (d : Nat) : (remapBoundaries sorted d).Pairwise (· ≤ ·) := by
  have hn : 0 < sorted.length := List.length_pos_iff.mpr hne
  unfold remapBoundaries
  rw [List.pairwise_append]
  refine ⟨?_, by simp, ?_⟩
  · rw [List.pairwise_map]
    apply List.Pairwise.imp_of_mem _ List.pairwise_lt_range
    intro a b ha hb hab
    have hb' := List.mem_range.mp hb
    exact sorted_getD_mono sorted hs _ _ (rank_mono a b _ d (le_of_lt hab)) (rank_lt b _ d hb' hn)
  · intro x hx y hy
    simp only [List.mem_map, List.mem_range] at hx
    obtain ⟨j, hj, rfl⟩ := hx
    simp only [List.mem_singleton] at hy
    subst hy
    have := rank_lt j _ d hj hn
    exact sorted_getD_mono sorted hs _ _ (by omega) (by omega)

/-- lowest boundary = minimum, highest boundary = maximum of the buffered coordinates -/
theorem remapBoundaries_first_last (sorted : List Rat) (hs : sorted.Pairwise (· ≤ ·)) (hne : sorted ≠ [])
    (d : Nat) (hd : 0 < d) :
    (remapBoundaries sorted d).getD 0 0 = sorted.getD 0 0 ∧
    (remapBoundaries sorted d).getD d 0 = sorted.getD (sorted.length - 1) 0 ∧
    ∀ x ∈ sorted, sorted.getD 0 0 ≤ x ∧ x ≤ sorted.getD (sorted.length - 1) 0 := by
  have hn : 0 < sorted.length := List.length_pos_iff.mpr hne
  refine ⟨?_, ?_, ?_⟩
  · unfold remapBoundaries
    cases d with
    | zero => omega
    | succ d => simp [List.range_succ_eq_map]
  · unfold remapBoundaries
    have : ((List.range d).map (fun j => sorted.getD (j * sorted.length / d) 0)).length = d := by simp
    rw [List.getD_eq_getElem?_getD, List.getElem?_append_right (by omega)]
    simp [this]
  · intro x hx
    obtain ⟨i, hi, rfl⟩ := List.getElem_of_mem hx
    have h1 := sorted_getD_mono sorted hs 0 i (Nat.zero_le _) hi
    have h2 := sorted_getD_mono sorted hs i (sorted.length - 1) (by omega) (by omega)
    rw [getD_eq_getElem' _ _ _ hi] at h1 h2
    exact ⟨h1, h2⟩

/-- **T15.1 `boundaries_sorted`** : after a remap every dimension's boundaries are sorted -/
theorem boundaries_sorted (g : SbGeom) (buf : List Cand) (hne : buf ≠ []) :
    ∀ b ∈ (newGeom g buf).bnds, b.Pairwise (· ≤ ·) := by
  intro b hb
  simp only [newGeom, List.mem_map, List.mem_range] at hb
  obtain ⟨k, _, rfl⟩ := hb
  apply remapBoundaries_sorted _ (insertionSort_sorted _)
  intro h
  have := insertionSort_length (column buf k)
  rw [h] at this
  simp [column] at this
  exact hne (List.length_eq_zero_iff.mp this.symm)

/-! ## routing under the new geometry stays in range -/

theorem sbCoord_lt (bs : List Rat) (d : Nat) (hd : 0 < d) (lo hi eps m : Rat) :
    sbCoord (bs.take d) lo hi eps m < d := by
  unfold sbCoord
  have := C03.countBelow_le (bs.take d) (sbClip lo hi eps m)
  have h2 : (bs.take d).length ≤ d := by simp
  omega

theorem sbCoords_inRange (dims : List Nat) (bnds : List (List Rat)) (lo hi m : List Rat) (eps : Rat)
    (hd : ∀ d ∈ dims, 0 < d) (hb : bnds.length = dims.length) (hl : lo.length = dims.length)
    (hh : hi.length = dims.length) (hm : m.length = dims.length) :
    C03.InRange dims (sbCoords ⟨dims, bnds, lo, hi, eps⟩ m) := by
  induction dims generalizing bnds lo hi m with
  | nil => simp [sbCoords, zip5, C03.InRange]
  | cons d ds ih =>
    cases bnds with
    | nil => simp at hb
    | cons b bs =>
      cases lo with
      | nil => simp at hl
      | cons l ls =>
        cases hi with
        | nil => simp at hh
        | cons h hs =>
          cases m with
          | nil => simp at hm
          | cons x xs =>
            simp only [sbCoords, zip5, List.map_cons, C03.InRange]
            refine ⟨sbCoord_lt b d (hd d (by simp)) l h eps x, ?_⟩
            exact ih bs ls hs xs (fun y hy => hd y (by simp [hy])) (by simpa using hb) (by simpa using hl)
              (by simpa using hh) (by simpa using hm)

/-- a geometry whose lists have one entry per dimension, every dimension with at least one cell -/
structure GeomOK (g : SbGeom) : Prop where
  pos  : ∀ d ∈ g.dims, 0 < d
  bnds : g.bnds.length = g.dims.length
  lo   : g.lo.length = g.dims.length
  hi   : g.hi.length = g.dims.length

theorem newGeom_ok (g : SbGeom) (buf : List Cand) (h : GeomOK g) : GeomOK (newGeom g buf) := by
  refine ⟨h.pos, ?_, ?_, ?_⟩ <;> simp [newGeom, h.bnds]

theorem newGeom_dims (g : SbGeom) (buf : List Cand) : (newGeom g buf).dims = g.dims := rfl

theorem sbIdx_lt (g : SbGeom) (h : GeomOK g) (m : List Rat) (hm : m.length = g.dims.length) :
    sbIdx g m < cells g.dims := by
  unfold sbIdx cells
  apply C03.ravel_lt
  have := sbCoords_inRange g.dims g.bnds g.lo g.hi m g.eps h.pos h.bnds h.lo h.hi hm
  exact this

/-! ## T15.2 the contents after a remap -/

/-- the archive a remap builds, and its feedback, spelled out: clear, one batch add of
(previous elites ++ buffer without its newest entry), one single add of the newest entry,
all routed by the **new** geometry -/
theorem remap_def (s : Sliding) (buf : List Cand) (c : Cand) (hl : buf.getLast? = some c) :
    let g' := newGeom s.geom buf
    let a1 := (s.arch.clear.addBatch ((elites s.arch ++ buf.dropLast).map (route g'))).1
    (remap s buf).1.arch = (a1.addSingle (route g' c)).1 ∧
    (remap s buf).1.geom = g' ∧ (remap s buf).1.buffer = buf ∧
    (remap s buf).2 = (a1.addSingle (route g' c)).2 := by
  simp [remap, hl]

/-- **T15.2 `remap_feedback`** : the feedback of a remapping insertion is `judge` against the
archive re-built from the previous elites and the older buffer entries -/
theorem remap_feedback (s : Sliding) (buf : List Cand) (c : Cand) (hl : buf.getLast? = some c) :
    let g' := newGeom s.geom buf
    let a1 := (s.arch.clear.addBatch ((elites s.arch ++ buf.dropLast).map (route g'))).1
    (remap s buf).2 = judge a1.cfg (a1.cellOf (sbIdx g' c.meas)) c := by
  have := (remap_def s buf c hl).2.2.2
  simp only at this ⊢
  rw [this]
  rfl

theorem dropLast_append_getLast {α : Type} (l : List α) (c : α) (h : l.getLast? = some c) :
    l.dropLast ++ [c] = l := by
  have hne : l ≠ [] := by intro h'; subst h'; simp at h
  have := List.dropLast_append_getLast hne
  rw [List.getLast?_eq_getLast hne] at h
  simp only [Option.some.injEq] at h
  rw [← h]; exact this

/-- hypotheses under which a remap is analysed: an elitist archive over the grid's cells -/
structure SlidingOK (s : Sliding) : Prop where
  geom : GeomOK s.geom
  elit : C01.Elitist s.arch.cfg
  cap  : s.arch.store.cap = cells s.geom.dims

/-- **T15.2 `remap_spec`** : after a remap every cell holds the best, earliest first on ties,
of (previous elites ++ buffered solutions) routed to it by the new boundaries and bounds —
the result of inserting them, in that order, into an empty archive with the new geometry. -/
theorem remap_spec (s : Sliding) (hs : SlidingOK s) (buf : List Cand) (c : Cand)
    (hl : buf.getLast? = some c) (hm : c.meas.length = s.geom.dims.length) (i : Nat)
    (hi : i < cells s.geom.dims) :
    C01.absCell ((remap s buf).1.arch.cellOf i) =
      bestOf (rowsTo ((elites s.arch ++ buf).map (route (newGeom s.geom buf))) i) := by
  obtain ⟨harch, _, _, _⟩ := remap_def s buf c hl
  rw [harch]
  set g' := newGeom s.geom buf with hg'
  -- run the two steps through the C01 invariant, starting from the cleared archive
  have h0 : C01.RunInv s.arch.cfg (cells s.geom.dims) s.arch.clear (fun _ => []) :=
    ⟨rfl, hs.cap, by intro j e h; simp [Arch.clear, cellOf, Store.clear] at h,
     by intro j _; simp [Arch.clear, cellOf, Store.clear, C01.absCell, bestFrom]⟩
  have h1 := C01.inv_step s.arch.cfg hs.elit (cells s.geom.dims) s.arch.clear (fun _ => []) h0
    (.add ((elites s.arch ++ buf.dropLast).map (route g'))) trivial
  have hr : (route g' c).1 < cells s.geom.dims := by
    have := sbIdx_lt g' (newGeom_ok s.geom buf hs.geom) c.meas (by rw [newGeom_dims]; exact hm)
    rw [newGeom_dims] at this
    exact this
  have h2 := C01.inv_step s.arch.cfg hs.elit (cells s.geom.dims) _ _ h1 (.add1 (route g' c)) hr
  have := h2.spec i hi
  simp only [C01.step, C01.routedStep, List.nil_append] at this
  rw [this, ← rowsTo_append, bestOf_eq_bestFrom]
  congr 2
  rw [← List.map_singleton (f := route g'), ← List.map_append, List.append_assoc,
    dropLast_append_getLast buf c hl]

/-- **T15.3 `remap_placed`** : after a remap every surviving elite lies in the cell its own
measures map to under the new geometry (so C07 self-retrieval holds across remaps) -/
theorem remap_placed (s : Sliding) (hs : SlidingOK s) (buf : List Cand) (c : Cand)
    (hl : buf.getLast? = some c) (hm : c.meas.length = s.geom.dims.length) :
    C07.Placed (sbIdx (newGeom s.geom buf)) (remap s buf).1.arch := by
  obtain ⟨harch, _, _, _⟩ := remap_def s buf c hl
  rw [harch]
  set g' := newGeom s.geom buf
  have h0 : C07.Placed (sbIdx g') s.arch.clear := by
    intro j e h; simp [Arch.clear, cellOf, Store.clear] at h
  have h1 := C07.placed_addBatch (sbIdx g') s.arch.clear h0
    ((elites s.arch ++ buf.dropLast).map (route g')) (by
      intro r hr
      obtain ⟨x, _, rfl⟩ := List.mem_map.mp hr
      rfl)
  apply C07.placed_addSingle (sbIdx g') _ h1 (route g' c) _ rfl
  rw [addBatch_cap]
  simp only [Arch.clear, Store.clear]
  rw [hs.cap]
  have := sbIdx_lt g' (newGeom_ok s.geom buf hs.geom) c.meas (by rw [newGeom_dims]; exact hm)
  rw [newGeom_dims] at this
  exact this

/-- **T15.4 `nothing_lost`** : every previous elite and every buffered solution finds its new
cell occupied afterwards, by a solution at least as good (nothing is lost except to a better
solution in the same new cell). -/
theorem nothing_lost (s : Sliding) (hs : SlidingOK s) (buf : List Cand) (c : Cand)
    (hl : buf.getLast? = some c) (hm : ∀ x ∈ elites s.arch ++ buf, x.meas.length = s.geom.dims.length)
    (x : Cand) (hx : x ∈ elites s.arch ++ buf) :
    ∃ e, (remap s buf).1.arch.cellOf (sbIdx (newGeom s.geom buf) x.meas) = some e ∧ x.obj ≤ e.obj := by
  have hc : c ∈ buf := List.mem_of_getLast? hl
  have hmc := hm c (List.mem_append_right _ hc)
  set g' := newGeom s.geom buf
  have hi : sbIdx g' x.meas < cells s.geom.dims := by
    have := sbIdx_lt g' (newGeom_ok s.geom buf hs.geom) x.meas (by rw [newGeom_dims]; exact hm x hx)
    rw [newGeom_dims] at this
    exact this
  have hspec := remap_spec s hs buf c hl hmc _ hi
  have hmem : x ∈ rowsTo ((elites s.arch ++ buf).map (route g')) (sbIdx g' x.meas) := by
    rw [mem_rowsTo]
    exact List.mem_map.mpr ⟨x, hx, rfl⟩
  rw [bestOf_eq_bestFrom] at hspec
  have hsome := bestFrom_isSome none (rowsTo ((elites s.arch ++ buf).map (route g')) (sbIdx g' x.meas))
  have hne : (rowsTo ((elites s.arch ++ buf).map (route g')) (sbIdx g' x.meas)).isEmpty = false := by
    cases hr : rowsTo ((elites s.arch ++ buf).map (route g')) (sbIdx g' x.meas) with
    | nil => rw [hr] at hmem; simp at hmem
    | cons _ _ => rfl
  rw [hne] at hsome
  simp only [Option.isSome_none, Bool.not_false, Bool.or_true] at hsome
  obtain ⟨w, hw⟩ := Option.isSome_iff_exists.mp hsome
  rw [hw] at hspec
  cases hcell : (remap s buf).1.arch.cellOf (sbIdx g' x.meas) with
  | none => rw [hcell] at hspec; simp [C01.absCell] at hspec
  | some e =>
    refine ⟨e, rfl, ?_⟩
    rw [hcell] at hspec
    simp only [C01.absCell, Option.map_some, Option.some.injEq] at hspec
    have := (bestFrom_ge none _ w hw).2 x hmem
    rw [← hspec] at this
    exact this

/-! ## T15.5 between remaps the archive is the elitist grid over the current boundaries -/

theorem between_remaps (s : Sliding) (c : Cand) (h : (s.total + 1) % s.freq ≠ 0) :
    (s.addSingle c).1.arch = (s.arch.addSingle (route s.geom c)).1 ∧
    (s.addSingle c).2 = (s.arch.addSingle (route s.geom c)).2 ∧
    (s.addSingle c).1.geom = s.geom ∧ (s.addSingle c).1.total = s.total + 1 ∧
    (s.addSingle c).1.buffer = pushBuf s.buffer s.bufCap c := by
  simp [Sliding.addSingle, h]

/-- a remap happens exactly on every `remap_frequency`-th insertion -/
theorem remap_iff (s : Sliding) (c : Cand) (h : (s.total + 1) % s.freq = 0) :
    s.addSingle c = remap { s with total := s.total + 1 } (pushBuf s.buffer s.bufCap c) := by
  simp [Sliding.addSingle, h]

/-! ## T15.6 the buffer is the most recent `buffer_capacity` insertions -/

theorem pushBuf_length (buf : List Cand) (cap : Nat) (hc : 0 < cap) (c : Cand) (h : buf.length ≤ cap) :
    (pushBuf buf cap c).length ≤ cap := by
  unfold pushBuf
  split <;> simp <;> omega

/-- **T15.6 `buffer_spec`** : after any sequence of insertions the buffer holds the last
`min(buffer_capacity, n)` of them, oldest first -/
theorem buffer_spec (cap : Nat) (hc : 0 < cap) (buf : List Cand) (h : buf.length ≤ cap) (cs : List Cand) :
    cs.foldl (fun b c => pushBuf b cap c) buf =
      (buf ++ cs).drop ((buf ++ cs).length - cap) := by
  induction cs generalizing buf with
  | nil =>
    simp only [List.foldl_nil, List.append_nil]
    have : buf.length - cap = 0 := by omega
    rw [this]; rfl
  | cons c cs ih =>
    simp only [List.foldl_cons]
    rw [ih (pushBuf buf cap c) (pushBuf_length buf cap hc c h)]
    unfold pushBuf
    by_cases hfull : cap ≤ buf.length
    · have hlen : buf.length = cap := by omega
      rw [if_pos hfull]
      obtain ⟨b, bs, rfl⟩ : ∃ b bs, buf = b :: bs := by
        cases buf with
        | nil => simp at hlen; omega
        | cons b bs => exact ⟨b, bs, rfl⟩
      simp only [List.length_cons] at hlen
      have e1 : (((b :: bs).tail ++ [c]) ++ cs).length - cap = cs.length := by simp; omega
      have e2 : ((b :: bs) ++ c :: cs).length - cap = cs.length + 1 := by simp; omega
      rw [e1, e2]
      simp
    · rw [if_neg hfull]
      simp

/-! ## non-vacuity -/

/-- 1-D archive with 2 cells, remap every 3rd insertion, buffer of 3: the third insertion
moves the boundaries to the order statistics of {1, 5, 9}; nothing is lost -/
theorem nonvacuous :
    let s0 := Sliding.new [2] [0] [1] (1/1000000) 3 3 0 [[0, 1/2, 1]]
    let s3 := (s0.addBatch [⟨1, 2, [5]⟩, ⟨2, 3, [9]⟩, ⟨3, 1, [1]⟩]).1
    s3.geom.bnds = [[1, 5, 9]] ∧ s3.geom.lo = [1] ∧ s3.geom.hi = [9] ∧
    (s3.arch.cellOf 0).map (·.tok) = some 3 ∧ (s3.arch.cellOf 1).map (·.tok) = some 2 ∧
    s3.buffer.map (·.tok) = [1, 2, 3] ∧
    ((s3.addSingle ⟨4, 7, [6]⟩).1.buffer.map (·.tok)) = [2, 3, 4] := by
  decide +kernel

end Pyribs.C15
