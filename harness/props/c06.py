"""C06 — archive statistics and best_elite always agree with the stored contents."""
from fractions import Fraction as F

import numpy as np

import archdispatch
import archlib
from core import Driver, Failure, q, ql

ID = "C06"
from genf import translate  # noqa: E402,F401  (regenerates lean/PyribsGen/Formulas.lean from the tree under check)
PROOF_MODULES = ["PyribsProofs.C06", "PyribsProofs.C06b", "PyribsProofs.Cqd", "PyribsProofs.C14b", "PyribsProofs.C15b", "PyribsGen.Formulas", "PyribsProofs.GenF",
                 "PyribsGen.Control", "PyribsProofs.GenFArch"]
THEOREMS = [
    "Pyribs.GenFProofs.objsum_term_from_source",
    "Pyribs.GenFProofs.objsum_delta_from_source",
    "Pyribs.GenFProofs.objsum_new_from_source",
    "Pyribs.GenFProofs.stats_max_from_source",
    "Pyribs.GenFProofs.transform_chains_from_source",
    "Pyribs.GenFProofs.stats_match",
    "Pyribs.GenFProofs.cqd_value_matches",
    "Pyribs.C06.sum_point_update",
    "Pyribs.C06.totalObj_applyWs",
    "Pyribs.C06.batchWrites_nodup",
    "Pyribs.C06.statsInv_commit",
    "Pyribs.C06.statsInv_addBatch",
    "Pyribs.C06.statsInv_addSingle",
    "Pyribs.C06.stats_invariant",
    "Pyribs.C06.derived_stats",
    "Pyribs.C06.clear_resets",
    "Pyribs.C06.bestWrite_spec",
    "Pyribs.C06.maxInv_update",
    "Pyribs.C06.obj_max_spec",
    "Pyribs.C06.nonvacuous",
    "Pyribs.C06b.step_monotone",
    "Pyribs.C06b.obj_max_is_current_max",
    "Pyribs.C06b.nonvacuous",
    "Pyribs.C14b.statsInv_add",
    "Pyribs.C14b.statsInv_history",
    "Pyribs.C14b.cells_eq_len_convention",
    "Pyribs.Cqd.score_perm_invariant",
    "Pyribs.Cqd.score_eq_formula",
    "Pyribs.Cqd.dist_le_defaultDistMax",
    "Pyribs.Cqd.defaultDistMax_depends_on_ord",
    "Pyribs.Cqd.nonvacuous",
    "Pyribs.C15b.good_addSingle",
    "Pyribs.C15b.good_history",
]
RULE = ("lock-step histories on every fixed-cell archive kind, default and CMA-MAE settings, offsets "
        "{0,-8,3/2,-100}, float32/float64 with dyadic objectives (sums exact in the dtype); after every call stats "
        "and best_elite are recomputed from data() by the oracle; cqd_score with explicit target points and "
        "penalties is compared with the model (exact for L1 / L-infinity distances, tolerance for L2) and must be "
        "identical when the same elites are reached by a different history; non-trivial when a cell receives two "
        "or more candidates (replacement delta) ; ProximityArchive / remaps: see C14 / C15 runners")
PARTIAL = ["cqd_score with the Euclidean norm is compared with relative tolerance 2^-40 (square roots); L1 and "
           "L-infinity are compared exactly on dyadic inputs",
           "the implementation normalises objectives as objective/(obj_max-obj_min) (no subtraction of obj_min); "
           "the model follows the implementation's documented computation (DESIGN section 3)"]
ASSUMPTIONS = list(__import__("props.c01", fromlist=["x"]).ASSUMPTIONS)
PROPS = {"C06"}


def gen(profile, **kw):
    def g(rng):
        case = archlib.gen_case(rng, profile, **kw)
        case["profile"] = profile
        return case
    return g


def gen_cqd(rng):
    case = archlib.gen_case(rng, "percell", kinds=("grid", "cvt"), dtype="f64", huge=False)
    case["profile"] = "cqd"
    nd = len(case["dims"])
    its = rng.randint(1, 3)
    npts = rng.randint(1, 4)
    case["cqd"] = {
        "targets": [[[archlib.dyadic(rng, -2, 6, 4) for _ in range(nd)] for _ in range(npts)] for _ in range(its)],
        "penalties": [archlib.dyadic(rng, 0, 2, 4) for _ in range(rng.randint(1, 3))],
        "obj_min": archlib.dyadic(rng, -8, 0, 2), "obj_span": q(F(rng.choice([1, 2, 4, 16]))),
        "dist_max": q(F(rng.choice([1, 2, 8]))), "ord": rng.choice([1, "inf", 2]),
    }
    return case


def run_cqd(case):
    """Run the history (stats oracle on), then compare cqd_score with the model and across histories."""
    run = archlib.Run(case, PROPS)
    f = archlib.guarded(run, PROPS)       # closes the driver
    if f is not None:
        return f
    c = case["cqd"]
    arch = run.archive
    targets = np.array([[[float(F(x)) for x in p] for p in it] for it in c["targets"]])
    pens = np.array([float(F(x)) for x in c["penalties"]])
    obj_min = float(F(c["obj_min"]))
    obj_max = obj_min + float(F(c["obj_span"]))
    ordv = np.inf if c["ord"] == "inf" else c["ord"]
    if len(arch) == 0:
        return None
    tb, pb = targets.copy(), pens.copy()
    res = arch.cqd_score(len(targets), targets, pens, obj_min, obj_max, dist_max=float(F(c["dist_max"])),
                         dist_ord=ordv)
    if not (np.array_equal(tb, targets) and np.array_equal(pb, pens)):
        return Failure("oracle", "[C06] cqd_score modified its arguments")
    # same elites reached by a different history (one batch add of the current elites into a fresh archive)
    d = arch.data()
    other = archlib.make_archive(case)
    extras = {k: d[k] for k in d if k not in ("solution", "objective", "measures", "threshold", "index")}
    order = np.random.default_rng(0).permutation(len(d["index"]))
    other.add(d["solution"][order], d["objective"][order], d["measures"][order],
              **{k: v[order] for k, v in extras.items()})
    res2 = other.cqd_score(len(targets), targets, pens, obj_min, obj_max, dist_max=float(F(c["dist_max"])),
                           dist_ord=ordv)
    if ordv != 2 and not np.array_equal(res.scores, res2.scores):
        return Failure("oracle", f"[C06] cqd_score depends on the history, not on the current elites: "
                       f"{res.scores} vs {res2.scores}")
    if ordv == 2 and not np.allclose(res.scores, res2.scores, rtol=1e-12, atol=1e-12):
        return Failure("oracle", f"[C06] cqd_score depends on the history: {res.scores} vs {res2.scores}")
    if res.mean != np.mean(res.scores):
        return Failure("oracle", "[C06] cqd mean is not the mean of the per-iteration scores")
    # oracle: the defining formula evaluated directly on the current elites (exact rationals for L1 / L-infinity)
    objs = [F(float(o)) for o in d["objective"]]
    meas = [[F(float(x)) for x in m] for m in d["measures"]]
    span = F(obj_max) - F(obj_min)
    dmax = F(c["dist_max"])

    def dist(a, b):
        if ordv == 1:
            return sum(abs(x - y) for x, y in zip(a, b))
        if ordv == np.inf:
            return max(abs(x - y) for x, y in zip(a, b))
        return None

    if ordv != 2:
        for it, pts in enumerate(c["targets"]):
            want = F(0)
            for pen in [F(float(x)) for x in pens]:
                for pt in pts:
                    t = [F(x) for x in pt]
                    want += max(o / span - pen * dist(m, t) / dmax for o, m in zip(objs, meas))
            got = F(float(res.scores[it]))
            if abs(got - want) > F(1, 2**36) * max(1, abs(want)):
                return Failure("oracle", f"[C06] cqd_score iteration {it}: {float(got)!r} but the formula sum over penalties "
                               f"and targets of max over current elites (objective/span - penalty*dist/dist_max) gives "
                               f"{float(want)!r}")
    # default dist_max: the norm, in the same order as the distances, of upper_bounds - lower_bounds (model: defaultDistMax)
    lo = [F(float(x)) for x in arch.lower_bounds]
    hi = [F(float(x)) for x in arch.upper_bounds]
    if ordv != 2 and all(a < b for a, b in zip(lo, hi)):
        drv0 = Driver("cqd")
        try:
            dm = drv0.ask(f"dmax ord={c['ord']} lo={ql(lo)} hi={ql(hi)}")
        finally:
            drv0.close()
        dmax0 = F(dm)
        res0 = arch.cqd_score(len(targets), targets, pens, obj_min, obj_max, dist_ord=ordv)
        ctx_note = f"default dist_max (ord={c['ord']}, bounds {ql(lo)}..{ql(hi)}) = {dm}"
        for it, pts in enumerate(c["targets"]):
            want = F(0)
            for pen in [F(float(x)) for x in pens]:
                for pt in pts:
                    t = [F(x) for x in pt]
                    want += max(o / span - pen * dist(m, t) / dmax0 for o, m in zip(objs, meas))
            got = F(float(res0.scores[it]))
            if abs(got - want) > F(1, 2**36) * max(1, abs(want)):
                return Failure("oracle", f"[C06] cqd_score with the default dist_max, iteration {it}: {float(got)!r} but the "
                               f"formula with {ctx_note} gives {float(want)!r}")
    # variants: integer `penalties` (linspace) and integer `target_points` (drawn by the archive, reported back)
    res3 = arch.cqd_score(2, 3, 3, obj_min, obj_max, dist_max=float(F(c["dist_max"])), dist_ord=ordv)
    if list(res3.penalties) != [0.0, 0.5, 1.0] or np.asarray(res3.target_points).shape != (2, 3, len(case["lo"])):
        return Failure("oracle", f"[C06] cqd_score(penalties=3, target_points=3): penalties {res3.penalties}, "
                       f"target shape {np.asarray(res3.target_points).shape}")
    for it in range(2):
        want = 0.0
        for pen in res3.penalties:
            for pt in res3.target_points[it]:
                dd = np.linalg.norm(d["measures"] - pt, ord=ordv, axis=1)
                want += float(np.max(d["objective"] / (obj_max - obj_min) - pen * dd / float(F(c["dist_max"]))))
        if abs(res3.scores[it] - want) > 1e-9 * max(1.0, abs(want)):
            return Failure("oracle", f"[C06] cqd_score with drawn target points, iteration {it}: {res3.scores[it]!r} but the "
                           f"formula on the reported target points gives {want!r}")
    # many target points (more than any internal block size an implementation might process them in)
    if case.get("case_index", 0) % 4 == 0:
        nt = 1024 + 1 + (case.get("case_index", 0) // 4) % 700
        res4 = arch.cqd_score(1, nt, pens, obj_min, obj_max, dist_max=float(F(c["dist_max"])), dist_ord=ordv)
        tp = np.asarray(res4.target_points)
        if tp.shape != (1, nt, len(case["lo"])):
            return Failure("oracle", f"[C06] cqd_score(target_points={nt}): reported target points of shape {tp.shape}")
        want = 0.0
        for pen in pens:
            dd = np.stack([np.linalg.norm(d["measures"] - pt, ord=ordv, axis=1) for pt in tp[0]])   # (nt, elites)
            want += float(np.sum(np.max(d["objective"][None, :] / (obj_max - obj_min)
                                        - pen * dd / float(F(c["dist_max"])), axis=1)))
        if abs(res4.scores[0] - want) > 1e-9 * max(1.0, abs(want)):
            return Failure("oracle", f"[C06] cqd_score with {nt} target points: {res4.scores[0]!r} but the formula summed "
                           f"over all {nt} reported target points gives {want!r}")
    # model
    drv = Driver("cqd")
    try:
        elites = ";".join(f"{q(F(float(o)))}:{ql(F(float(x)) for x in m)}" for o, m in zip(d["objective"], d["measures"]))
        line = (f"score ord={c['ord']} span={q(F(obj_max) - F(obj_min))} dmax={c['dist_max']} "
                f"pens={ql(F(float(x)) for x in pens)} elites={elites} targets=" +
                "|".join(";".join(ql(F(x) for x in p) for p in it) for it in c["targets"]))
        m = drv.ask(line)
        if ordv == 2:
            return None if m.startswith("unsupported") else Failure("corr", f"[C06] cqd model said {m}")
        want = [F(x) for x in m.split(",")]
        got = [F(float(x)) for x in res.scores]
        for a, b in zip(got, want):
            if a != b and abs(a - b) > F(1, 2**40) * max(1, abs(b)):
                return Failure("corr", f"[C06] cqd_score impl={[str(x) for x in got]} model={[str(x) for x in want]}")
    finally:
        drv.close()
    return None


def run_case(case):
    if case.get("profile") == "cqd":
        return run_cqd(case)
    if case.get("kind") == "scale":
        return archlib.run_scale(case, PROPS)
    return archdispatch.run_case(case, PROPS)


def run(ctx):
    budget = 6 if ctx.quick else 70
    ctx.explore("mixed", gen("mixed"), run_case, ctx.n(160, 12000), nontrivial=archlib.nontrivial_c01, time_budget=budget)
    ctx.explore("percell", gen("percell"), run_case, ctx.n(120, 8000), nontrivial=archlib.nontrivial_c01, time_budget=budget)
    ctx.explore("cma", gen("cma", cma=True), run_case, ctx.n(160, 10000), nontrivial=archlib.nontrivial_c01, time_budget=budget)
    ctx.explore("cqd", gen_cqd, run_case, ctx.n(80, 6000), nontrivial=archlib.nontrivial_c01, time_budget=budget)
    # remaps (stats of the rebuilt contents) and the ProximityArchive cells = len convention
    ctx.explore("sliding-remaps", archdispatch.gen_sliding, run_case, ctx.n(70, 6000), time_budget=budget)
    ctx.explore("proximity", archdispatch.gen_prox(), run_case, ctx.n(70, 6000), time_budget=budget)
    ctx.explore("scale", archlib.gen_scale, run_case, ctx.n(3, 120), time_budget=10 if ctx.quick else 100)


def replay(ctx, case):
    return run_case(case)
