import PyribsModel.Scheduler
/-!
Line-protocol machine `sched` for the `Scheduler` model.

```
new batch|single 0|1          → ok
ask 2,0,3 | askdqd 2,0,3      → ok sols=0.0,0.1,2.0,2.1,2.2 ev=<events> | err runtime
tell | telldqd                → ok ev=<events>                          | err runtime
tellbad | telldqdbad          → err value                               | err runtime
phase                         → none|ask|askdqd|tell|telldqd
```
`<events>` are the calls made on archive / result archive / emitters by this
request, in order, `;`-separated (`none` when there are none):
`ask:<dqd>:<em>:<n>`, `add:<result>:<rows>`, `tell:<dqd>:<em>:<sols>:<rows>`.
-/
namespace Pyribs.SchedulerDrv
open Pyribs Scheduler

structure St where
  cfg : Cfg
  s   : Scheduler.St

def init : St := ⟨⟨.batch, false⟩, Scheduler.init⟩

def showSol (p : Sol) : String := s!"{p.1}.{p.2}"
def showSols (xs : List Sol) : String := showList showSol xs

def showEvent : Event → String
  | .ask d e n => s!"ask:{showBool d}:{e}:{n}"
  | .add r rows => s!"add:{showBool r}:{showNatList rows}"
  | .tell d e sols rows => s!"tell:{showBool d}:{e}:{showSols sols}:{showNatList rows}"

def showEvents (es : List Event) : String :=
  if es.isEmpty then "none" else String.intercalate ";" (es.map showEvent)

def showErr : Err → String
  | .runtime => "err runtime"
  | .value => "err value"

def showPhase : Phase → String
  | .none => "none" | .ask => "ask" | .askDqd => "askdqd" | .tell => "tell" | .tellDqd => "telldqd"

def doOp (st : St) (op : Op) : St × String :=
  let (s', out) := step st.cfg st.s op
  let ev := showEvents (s'.trace.drop st.s.trace.length)
  ({ st with s := s' },
    match out with
    | .asked sols => s!"ok sols={showSols sols} ev={ev}"
    | .told => s!"ok ev={ev}"
    | .error e => showErr e)

def step (st : St) (toks : List String) : St × String :=
  match toks with
  | ["new", m, r] =>
    match (if m = "batch" then some Mode.batch else if m = "single" then some Mode.single else none),
          (if r = "1" then some true else if r = "0" then some false else none) with
    | some m, some r => (⟨⟨m, r⟩, Scheduler.init⟩, "ok")
    | _, _ => (st, "bad-op")
  | ["ask", ns] =>
    match parseNatList ns with
    | some ns => doOp st (.ask ns)
    | none => (st, "bad-op")
  | ["askdqd", ns] =>
    match parseNatList ns with
    | some ns => doOp st (.askDqd ns)
    | none => (st, "bad-op")
  | ["tell"] => doOp st .tell
  | ["telldqd"] => doOp st .tellDqd
  | ["tellbad"] => doOp st .tellBad
  | ["telldqdbad"] => doOp st .tellDqdBad
  | ["phase"] => (st, showPhase st.s.phase)
  | _ => (st, "bad-op")

end Pyribs.SchedulerDrv
