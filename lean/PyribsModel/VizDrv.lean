import PyribsModel.Viz
/-!
Line-protocol machine `viz` for the `Viz` model (stateless: every request carries the
archive geometry and the stored elites as exact rationals).

Requests (`key=value` tokens in any order after the operation word):
* `grid dims=<nats> b=<rats>|<rats> lo=<rats> hi=<rats> tr=0|1 vmin=none|<rat> vmax=… el=<elites>`
* `cvt1 lo=<rat> hi=<rat> cs=<rats> vmin=… vmax=… el=<elites>`
* `cvt2 cells=<nat> vmin=… vmax=… el=<elites>`
* `scatter tr=0|1 lo=<rats> hi=<rats> [b=<rats>|<rats>] vmin=… vmax=… el=<elites>`
* `par los=<rats> his=<rats> order=none|<ints> sort=0|1 vmin=… vmax=… el=<elites>`
where `<elites>` is `-` or `index:objective:m0,m1,…` joined by `;`.
-/
namespace Pyribs.VizDrv
open Pyribs Viz

abbrev St := Unit
def init : St := ()

def parseOptRat (s : String) : Option (Option Rat) :=
  if s = "none" then some none else (parseRat s).map some

def parseElite (s : String) : Option Elite :=
  match s.splitOn ":" with
  | [i, o, ms] => do
    let i ← i.toNat?
    let o ← parseRat o
    let ms ← parseRatList ms
    pure ⟨i, o, ms⟩
  | _ => none

def parseElites (s : String) : Option (List Elite) :=
  if s = "-" || s = "" then some [] else (s.splitOn ";").mapM parseElite

def parseBounds (s : String) : Option (List (List Rat)) :=
  if s = "-" || s = "" then some [] else (s.splitOn "|").mapM parseRatList

def parseBool (s : String) : Option Bool :=
  if s = "1" then some true else if s = "0" then some false else none

def parsePair (s : String) : Option (Rat × Rat) :=
  match parseRatList s with
  | some [a, b] => some (a, b)
  | _ => none

def showErr : Err → String
  | .value => "err value"
  | .index => "err index"

def showOptRat : Option Rat → String := showOpt showRat
def showPair (p : Rat × Rat) : String := s!"{showRat p.1},{showRat p.2}"
def showRow (r : List (Option Rat)) : String := showList showOptRat r

def showHeatmap (h : Heatmap) : String :=
  let rows := if h.colors.isEmpty then "-" else String.intercalate "|" (h.colors.map showRow)
  s!"colors={rows} xe={showRatList h.xEdges} ye={showRatList h.yEdges} clim={showPair h.clim}"

def showLims (l : (Rat × Rat) × (Rat × Rat)) : String :=
  s!"xlim={showPair l.1} ylim={showPair l.2}"

def showParLine (l : ParLine) : String :=
  s!"{showRat l.obj}:{showRat l.t}:{showRatList l.ys}"

/-- the fields every request carries -/
structure Common where
  vmin : Option Rat
  vmax : Option Rat
  el   : List Elite

def common (toks : List String) : Option Common := do
  let vmin ← (kv toks "vmin") >>= parseOptRat
  let vmax ← (kv toks "vmax") >>= parseOptRat
  let el ← (kv toks "el") >>= parseElites
  pure ⟨vmin, vmax, el⟩

def doGrid (toks : List String) : Option String := do
  let c ← common toks
  let dims ← (kv toks "dims") >>= parseNatList
  let b ← (kv toks "b") >>= parseBounds
  let tr ← (kv toks "tr") >>= parseBool
  match gridHeatmap dims b c.el tr c.vmin c.vmax with
  | .error e => pure (showErr e)
  | .ok h =>
    match dims with
    | [_, _] => do
      let lo ← (kv toks "lo") >>= parsePair
      let hi ← (kv toks "hi") >>= parsePair
      pure (showHeatmap h ++ " " ++ showLims (axLims lo hi tr))
    | _ => pure (showHeatmap h)

def doCvt1 (toks : List String) : Option String := do
  let c ← common toks
  let lo ← (kv toks "lo") >>= parseRat
  let hi ← (kv toks "hi") >>= parseRat
  let cs ← (kv toks "cs") >>= parseRatList
  match cvtHeatmap1 lo hi cs c.el c.vmin c.vmax with
  | .error e => pure (showErr e)
  | .ok h => pure (showHeatmap h ++ s!" sortidx={showNatList (sortIdx cs)}")

def doCvt2 (toks : List String) : Option String := do
  let c ← common toks
  let cells ← (kv toks "cells") >>= String.toNat?
  match cvt2Cells cells c.el c.vmin c.vmax with
  | .error e => pure (showErr e)
  | .ok (cs, cl) => pure s!"cells={showRow cs} clim={showPair cl}"

def doScatter (toks : List String) : Option String := do
  let c ← common toks
  let tr ← (kv toks "tr") >>= parseBool
  let lo ← (kv toks "lo") >>= parsePair
  let hi ← (kv toks "hi") >>= parsePair
  match scatter c.el tr c.vmin c.vmax with
  | .error e => pure (showErr e)
  | .ok s =>
    let base := s!"off={showList (fun p => s!"{showRat p.1}:{showRat p.2}") s.offsets} " ++
      s!"c={showRatList s.colors} clim={showPair s.clim} " ++ showLims (axLims lo hi tr)
    match kv toks "b" with
    | none => pure base
    | some bs =>
      match parseBounds bs with
      | some [b0, b1] =>
        let l := boundaryLines b0 b1 lo hi tr
        pure (base ++ s!" vx={showRatList l.vx} vspan={showPair l.vspan} " ++
          s!"hy={showRatList l.hy} hspan={showPair l.hspan}")
      | _ => none

def doPar (toks : List String) : Option String := do
  let c ← common toks
  let los ← (kv toks "los") >>= parseRatList
  let his ← (kv toks "his") >>= parseRatList
  let sort ← (kv toks "sort") >>= parseBool
  let order ← (kv toks "order") >>= (fun s =>
    if s = "none" then some none else (parseIntList s).map some)
  match parallelPlot los his order c.el sort c.vmin c.vmax with
  | .error e => pure (showErr e)
  | .ok (lines, cl) =>
    let ls := if lines.isEmpty then "-" else String.intercalate "|" (lines.map showParLine)
    let ax := (parallelAxes los his order).getD []
    let axs := if ax.isEmpty then "-" else String.intercalate "|" (ax.map showPair)
    pure s!"lines={ls} clim={showPair cl} axes={axs}"

def step (st : St) (toks : List String) : St × String :=
  let r :=
    match toks with
    | "grid" :: rest => doGrid rest
    | "cvt1" :: rest => doCvt1 rest
    | "cvt2" :: rest => doCvt2 rest
    | "scatter" :: rest => doScatter rest
    | "par" :: rest => doPar rest
    | _ => none
  (st, r.getD "bad-op")

end Pyribs.VizDrv
