import PyribsModel.Util
/-!
# Viz — model of `ribs/visualize/*` : what the plot functions hand to matplotlib

The plot functions read `index / objective / measures` of the stored elites
(from `archive.data()` or from a passed data frame), the archive's geometry
(`dims`, `boundaries`, `centroids`, `lower_bounds`, `upper_bounds`) and build the
*data of the artists*: a colour matrix + cell edges (`pcolormesh`), marker
offsets + colour array (`scatter`), boundary segments (`vlines / hlines`), one
poly-line per elite (`plot`), and colour limits.  This file models exactly that
data over `Rat`; rendering (matplotlib) and the 2-D Voronoi polygons (qhull) are
outside the model.

Code shape (what mirrors what):
* `unravel`                ↔ `GridArchive.int_to_grid_index` (`np.unravel_index`);
* `colorStep / fillColors / gridColors / gridEdges / axLims / gridHeatmap2`
                           ↔ `grid_archive_heatmap`, 2-D branch
                             (`colors[gy, gx] = objective`, `colors.T`, boundary and bound swap);
* `cellStep / fillCells / grid1dKey / grid1dColors / heatmap1d / gridHeatmap1`
                           ↔ `grid_archive_heatmap`, 1-D branch + `archive_heatmap_1d`;
* `withIdx / insertBy / isort / sortPairs / sortIdx / sortedCentroids / midpoints / cvtEdges /
  invFrom / invIdx / cvt1dColors / cvtHeatmap1`
                           ↔ `cvt_archive_heatmap`, 1-D branch
                             (`argsort`, midpoints, the `inv_idx[x] = i` loop);
* `lastObj / widen / clip01 / cvt2Cells`
                           ↔ `cvt_archive_heatmap`, 2-D branch, colour assignment only
                             (`pt_to_obj`, `min_obj / max_obj`, the ±0.01 widening,
                             `clip((obj - min) / (max - min), 0, 1)`);
* `scatterPt / scatter / boundaryLines / axLims`
                           ↔ `sliding_boundaries_archive_heatmap`, `proximity_archive_plot`;
* `colsOk / parCols / pick / axesOf / parallelAxes / normRest / normYs / sortByObj / normClip / parallelPlot`
                           ↔ `parallel_axes_plot`;
* `minL / maxL / clim`     ↔ `vmin = np.min(objective_batch) if vmin is None else vmin` (all of them).
Spec-shaped: `cellObj` (what a cell stores), `lastBy` (last write wins), `axisFrac`
(relative position on an axis).

An elite is what the plot functions see of a stored row.  The model describes the
behaviour the property demands (= the repaired code): the 1-D grid heat-map
indexes the grid-index column instead of squeezing it (D22), and
`parallel_axes_plot` sorts a copy of the frame (D15: the model has no state that
a plot could modify).
-/
namespace Pyribs.Viz

inductive Err | value | index
deriving DecidableEq, Repr

structure Elite where
  index : Nat
  obj   : Rat
  meas  : List Rat
deriving DecidableEq, Repr

/-! ### mixed radix (row-major, as `np.unravel_index`) -/

def prod : List Nat → Nat
  | [] => 1
  | d :: ds => d * prod ds

def ravel : List Nat → List Nat → Nat
  | _ :: ds, i :: is => i * prod ds + ravel ds is
  | _, _ => 0

/-- `GridArchive.int_to_grid_index` for one index -/
def unravel : List Nat → Nat → List Nat
  | [], _ => []
  | _ :: ds, n => (n / prod ds) :: unravel ds (n % prod ds)

/-! ### what a cell stores (spec-shaped) -/

/-- objective of the elite stored under int index `i` in `data()`, if any -/
def cellObj (elites : List Elite) (i : Nat) : Option Rat :=
  (elites.find? (fun e => e.index == i)).map (·.obj)

/-- the last row of the frame satisfying `p` (NumPy fancy assignment and `dict(zip(…))`:
the last write wins), spec-shaped counterpart of the folds below -/
def lastBy (p : Elite → Bool) : List Elite → Option Rat
  | [] => none
  | e :: es =>
    match lastBy p es with
    | some v => some v
    | none => if p e then some e.obj else none

/-- all entries present (structural `mapM` for `Option`) -/
def allSome {α : Type} : List (Option α) → Option (List α)
  | [] => some []
  | none :: _ => none
  | some a :: xs => (allSome xs).map (a :: ·)

/-- `np.unravel_index` / fancy indexing reject an index outside the archive -/
def indicesOk (cells : Nat) (elites : List Elite) : Bool :=
  elites.all (fun e => decide (e.index < cells))

/-! ### colour limits -/

def minL : List Rat → Option Rat
  | [] => none
  | x :: xs =>
    match minL xs with
    | none => some x
    | some m => some (if x ≤ m then x else m)

def maxL : List Rat → Option Rat
  | [] => none
  | x :: xs =>
    match maxL xs with
    | none => some x
    | some m => some (if m ≤ x then x else m)

/-- `vmin = np.min(objective_batch) if vmin is None else vmin`, same for `vmax`.
With no stored objective and a missing explicit limit there is no range: the 2-D
functions raise `ValueError` (`np.min` of an empty array); the 1-D helpers and
`parallel_axes_plot` produce NaN limits under a RuntimeWarning instead — the
model reports both as `Err.value` (the property speaks of the range of *stored*
objectives only). -/
def clim (objs : List Rat) (vmin vmax : Option Rat) : Except Err (Rat × Rat) :=
  match (vmin <|> minL objs), (vmax <|> maxL objs) with
  | some lo, some hi => .ok (lo, hi)
  | _, _ => .error .value

/-! ### grid heat-map, 2-D -/

/-- a colour matrix under construction: (row, column) ↦ colour value, `none` = NaN = blank -/
abbrev Mat := Nat → Nat → Option Rat

def Mat.set (m : Mat) (r c : Nat) (v : Rat) : Mat :=
  fun r' c' => if r' = r ∧ c' = c then some v else m r' c'

/-- one fancy assignment `colors[gy, gx] = objective` -/
def colorStep (dims : List Nat) (m : Mat) (e : Elite) : Mat :=
  match unravel dims e.index with
  | [gx, gy] => Mat.set m gy gx e.obj
  | _ => m

/-- `colors = np.full((y_dim, x_dim), nan); colors[gidx[:, 1], gidx[:, 0]] = objective_batch`
(NumPy fancy assignment: the last row naming a cell wins) -/
def fillColors (dims : List Nat) (elites : List Elite) : Mat :=
  elites.foldl (colorStep dims) (fun _ _ => none)

def materialise (rows cols : Nat) (m : Mat) : List (List (Option Rat)) :=
  (List.range rows).map (fun r => (List.range cols).map (fun c => m r c))

/-- the array handed to `pcolormesh`: row = y cell, column = x cell;
`dims = (x_dim, y_dim) = archive.dims`; `colors.T` when transposed -/
def gridColors (dims : Nat × Nat) (elites : List Elite) (transpose : Bool) :
    List (List (Option Rat)) :=
  let colors := fillColors [dims.1, dims.2] elites
  if transpose then materialise dims.1 dims.2 (fun r c => colors c r)
  else materialise dims.2 dims.1 colors

/-- `(x_bounds, y_bounds)`: `archive.boundaries[0], archive.boundaries[1]`, swapped when transposed -/
def gridEdges (b0 b1 : List Rat) (transpose : Bool) : List Rat × List Rat :=
  if transpose then (b1, b0) else (b0, b1)

/-- `ax.set_xlim(lower_bounds[0], upper_bounds[0]); ax.set_ylim(lower_bounds[1], upper_bounds[1])`
after `np.flip` of both bound vectors when transposed: `(xlim, ylim)` -/
def axLims (lo hi : Rat × Rat) (transpose : Bool) : (Rat × Rat) × (Rat × Rat) :=
  if transpose then ((lo.2, hi.2), (lo.1, hi.1)) else ((lo.1, hi.1), (lo.2, hi.2))

structure Heatmap where
  colors : List (List (Option Rat))
  xEdges : List Rat
  yEdges : List Rat
  clim   : Rat × Rat
deriving DecidableEq, Repr

/-- `grid_archive_heatmap`, `measure_dim == 2` -/
def gridHeatmap2 (dims : Nat × Nat) (b0 b1 : List Rat) (elites : List Elite) (transpose : Bool)
    (vmin vmax : Option Rat) : Except Err Heatmap :=
  if !indicesOk (dims.1 * dims.2) elites then .error .value
  else
    match clim (elites.map (·.obj)) vmin vmax with
    | .error e => .error e
    | .ok cl =>
      .ok ⟨gridColors dims elites transpose, (gridEdges b0 b1 transpose).1,
           (gridEdges b0 b1 transpose).2, cl⟩

/-! ### 1-D heat-maps (`archive_heatmap_1d`) -/

/-- one fancy assignment `cell_objectives[key(index)] = objective` -/
def cellStep (key : Nat → Nat) (f : Nat → Option Rat) (e : Elite) : Nat → Option Rat :=
  fun j => if j = key e.index then some e.obj else f j

/-- `cell_objectives = np.full(cells, nan); cell_objectives[key(index_batch)] = objective_batch` -/
def fillCells (key : Nat → Nat) (elites : List Elite) : Nat → Option Rat :=
  elites.foldl (cellStep key) (fun _ => none)

/-- 1-D grid: `cell_idx = int_to_grid_index(index_batch)[:, 0]` -/
def grid1dKey (d : Nat) (i : Nat) : Nat :=
  match unravel [d] i with
  | [g] => g
  | _ => i

def grid1dColors (d : Nat) (elites : List Elite) : List (Option Rat) :=
  (List.range d).map (fillCells (grid1dKey d) elites)

/-- `archive_heatmap_1d`: one row of cells over y-bounds `[0, 1]`; default limits are
`np.nanmin / np.nanmax` of the drawn cells -/
def heatmap1d (edges : List Rat) (cells : List (Option Rat)) (vmin vmax : Option Rat) :
    Except Err Heatmap :=
  match clim (cells.filterMap id) vmin vmax with
  | .error e => .error e
  | .ok cl => .ok ⟨[cells], edges, [0, 1], cl⟩

/-- `grid_archive_heatmap`, `measure_dim == 1` -/
def gridHeatmap1 (d : Nat) (b0 : List Rat) (elites : List Elite) (vmin vmax : Option Rat) :
    Except Err Heatmap :=
  if !indicesOk d elites then .error .value
  else heatmap1d b0 (grid1dColors d elites) vmin vmax

/-- `grid_archive_heatmap` (`validate_heatmap_visual_args`: only 1-D and 2-D archives) -/
def gridHeatmap (dims : List Nat) (bounds : List (List Rat)) (elites : List Elite)
    (transpose : Bool) (vmin vmax : Option Rat) : Except Err Heatmap :=
  match dims, bounds with
  | [d], [b0] => gridHeatmap1 d b0 elites vmin vmax
  | [xd, yd], [b0, b1] => gridHeatmap2 (xd, yd) b0 b1 elites transpose vmin vmax
  | _, _ => .error .value

/-! ### CVT heat-map, 1-D -/

def withIdx : Nat → List Rat → List (Rat × Nat)
  | _, [] => []
  | i, c :: cs => (c, i) :: withIdx (i + 1) cs

def insertBy (p : Rat × Nat) : List (Rat × Nat) → List (Rat × Nat)
  | [] => [p]
  | q :: qs => if p.1 ≤ q.1 then p :: q :: qs else q :: insertBy p qs

/-- insertion sort by centroid value (structural, so that examples compute) -/
def isort : List (Rat × Nat) → List (Rat × Nat)
  | [] => []
  | p :: ps => insertBy p (isort ps)

def sortPairs (cs : List Rat) : List (Rat × Nat) := isort (withIdx 0 cs)

/-- `centroid_sort_idx = np.argsort(centroids_1d)`: position ↦ centroid index -/
def sortIdx (cs : List Rat) : List Nat := (sortPairs cs).map (·.2)

/-- `sorted_centroids_1d = centroids_1d[centroid_sort_idx]` -/
def sortedCentroids (cs : List Rat) : List Rat := (sortPairs cs).map (·.1)

/-- `(sorted[:-1] + sorted[1:]) / 2.0` -/
def midpoints : List Rat → List Rat
  | a :: b :: rest => (a + b) / 2 :: midpoints (b :: rest)
  | _ => []

/-- `cell_boundaries = [lower_bound] ++ midpoints ++ [upper_bound]` -/
def cvtEdges (lo hi : Rat) (cs : List Rat) : List Rat :=
  lo :: (midpoints (sortedCentroids cs) ++ [hi])

/-- `for i, x in enumerate(centroid_sort_idx): inv_idx[x] = i` (from position `i`, over `zeros`) -/
def invFrom : Nat → List Nat → (Nat → Nat) → (Nat → Nat)
  | _, [], f => f
  | i, x :: xs, f => invFrom (i + 1) xs (fun y => if y = x then i else f y)

/-- `inv_idx`: centroid index ↦ position in the sorted order -/
def invIdx (s : List Nat) : Nat → Nat := invFrom 0 s (fun _ => 0)

/-- `cell_objectives[inv_idx[index_batch]] = objective_batch` -/
def cvt1dColors (cs : List Rat) (elites : List Elite) : List (Option Rat) :=
  (List.range cs.length).map (fillCells (invIdx (sortIdx cs)) elites)

/-- `cvt_archive_heatmap`, `measure_dim == 1` (`inv_idx[index_batch]` raises IndexError
for an index outside the archive) -/
def cvtHeatmap1 (lo hi : Rat) (cs : List Rat) (elites : List Elite) (vmin vmax : Option Rat) :
    Except Err Heatmap :=
  if !indicesOk cs.length elites then .error .index
  else heatmap1d (cvtEdges lo hi cs) (cvt1dColors cs elites) vmin vmax

/-! ### CVT heat-map, 2-D : colour assignment (the polygons are qhull's, not modelled) -/

def clip01 (t : Rat) : Rat := if t < 0 then 0 else if 1 < t then 1 else t

/-- last row of the frame naming index `i` (`dict(zip(index_batch, objective_batch))`) -/
def lastObj (elites : List Elite) (i : Nat) : Option Rat :=
  lastBy (fun e => e.index == i) elites

/-- `if min_obj == max_obj: min_obj, max_obj = min_obj - 0.01, max_obj + 0.01` -/
def widen (p : Rat × Rat) : Rat × Rat :=
  if p.1 = p.2 then (p.1 - 1 / 100, p.2 + 1 / 100) else p

/-- per centroid index `0 … cells-1`: `none` = transparent (empty cell), `some t` = the
colormap position `clip((obj - min_obj) / (max_obj - min_obj), 0, 1)`; and the limits
of the colour bar (`min_obj == max_obj` is widened by 1/100 on both sides) -/
def cvt2Cells (cells : Nat) (elites : List Elite) (vmin vmax : Option Rat) :
    Except Err (List (Option Rat) × (Rat × Rat)) :=
  match clim ((elites.filter (fun e => decide (e.index < cells))).map (·.obj)) vmin vmax with
  | .error e => .error e
  | .ok cl =>
    let w := widen cl
    .ok ((List.range cells).map
          (fun i => (lastObj elites i).map (fun o => clip01 ((o - w.1) / (w.2 - w.1)))), w)

/-! ### scatter plots (sliding boundaries, proximity) -/

/-- `x = measures[:, 0]; y = measures[:, 1]`, swapped when transposed -/
def scatterPt (transpose : Bool) (e : Elite) : Option (Rat × Rat) :=
  match e.meas with
  | [x, y] => some (if transpose then (y, x) else (x, y))
  | _ => none

structure Scatter where
  offsets : List (Rat × Rat)
  colors  : List Rat
  clim    : Rat × Rat
deriving DecidableEq, Repr

/-- `ax.scatter(x, y, c=objective_batch, vmin=…, vmax=…)`
(`validate_heatmap_visual_args`: only 2-D measures) -/
def scatter (elites : List Elite) (transpose : Bool) (vmin vmax : Option Rat) : Except Err Scatter :=
  match allSome (elites.map (scatterPt transpose)) with
  | none => .error .value
  | some pts =>
    match clim (elites.map (·.obj)) vmin vmax with
    | .error e => .error e
    | .ok cl => .ok ⟨pts, elites.map (·.obj), cl⟩

structure Lines where
  vx    : List Rat      -- x positions of the vertical boundary lines
  vspan : Rat × Rat     -- their y extent
  hy    : List Rat      -- y positions of the horizontal boundary lines
  hspan : Rat × Rat     -- their x extent
deriving DecidableEq, Repr

/-- `ax.vlines(x_boundary, lower_bounds[1], upper_bounds[1]); ax.hlines(y_boundary, lower_bounds[0],
upper_bounds[0])` after the transpose swap of boundaries and bounds -/
def boundaryLines (b0 b1 : List Rat) (lo hi : Rat × Rat) (transpose : Bool) : Lines :=
  let e := gridEdges b0 b1 transpose
  let l := axLims lo hi transpose
  ⟨e.1, l.2, e.2, l.1⟩

/-! ### parallel axes plot -/

/-- `df.get_field("measures")[:, cols]` for one row -/
def pick (ms : List Rat) (cols : List Nat) : Option (List Rat) := allSome (cols.map (fun c => ms[c]?))

/-- relative position of measure `m` on an axis spanning `[lo, hi]` (spec-shaped) -/
def axisFrac (lo hi m : Rat) : Rat := (m - lo) / (hi - lo)

def normRest (lo0 hi0 : Rat) : List Rat → List Rat → List Rat → List Rat
  | lo :: los, hi :: his, y :: ys =>
    ((y - lo) / (hi - lo) * (hi0 - lo0) + lo0) :: normRest lo0 hi0 los his ys
  | _, _, _ => []

/-- `normalized_ys`: the first axis as is, every other axis mapped affinely into the
coordinates of the first one -/
def normYs (los his ys : List Rat) : List Rat :=
  match los, his, ys with
  | lo0 :: los', hi0 :: his', y0 :: ys' => y0 :: normRest lo0 hi0 los' his' ys'
  | _, _, _ => []

def insertObj (e : Elite) : List Elite → List Elite
  | [] => [e]
  | f :: fs => if e.obj ≤ f.obj then e :: f :: fs else f :: insertObj e fs

/-- `df.sort_values("objective")` (ascending; stable here, the order among equal objectives is
not fixed by pandas and is canonicalised by the harness) -/
def sortByObj : List Elite → List Elite
  | [] => []
  | e :: es => insertObj e (sortByObj es)

/-- `matplotlib.colors.Normalize(vmin, vmax, clip=True)` -/
def normClip (lo hi o : Rat) : Rat :=
  if lo = hi then 0 else clip01 ((o - lo) / (hi - lo))

structure ParLine where
  obj : Rat          -- the objective the line encodes
  t   : Rat          -- its colormap position
  ys  : List Rat     -- y data (x data is 0, 1, …, len(cols)-1)
deriving DecidableEq, Repr

/-- `measure_order` given as ints: `max(cols) >= measure_dim` and negative entries raise
ValueError (so does an empty list: `np.max` of nothing) -/
def colsOk (measureDim : Nat) (cols : List Int) : Bool :=
  !cols.isEmpty && cols.all (fun c => decide (0 ≤ c ∧ c < (measureDim : Int)))

/-- the plotted columns: `measure_order`, or all measures in order -/
def parCols (dim : Nat) (order : Option (List Int)) : Option (List Nat) :=
  match order with
  | none => some (List.range dim)
  | some cs => if colsOk dim cs then some (cs.map Int.toNat) else none

/-- the limits of the plotted axes: the archive bounds of the selected measures; an axis on which
all stored measures coincide (bounds taken from the stored measures, e.g. a ProximityArchive with
one elite: `lower == upper`) is widened by 1/100 on both sides — as `proximity_archive_plot`
widens its bounds — so that the normalisation below is defined and the value is drawn mid-axis -/
def axesOf (l h : List Rat) : List (Rat × Rat) := (List.zip l h).map widen

def axesLo (l h : List Rat) : List Rat := (axesOf l h).map (·.1)
def axesHi (l h : List Rat) : List Rat := (axesOf l h).map (·.2)

/-- `axis.set_ylim(lower_bounds[i], upper_bounds[i])` for every plotted axis -/
def parallelAxes (los his : List Rat) (order : Option (List Int)) : Option (List (Rat × Rat)) :=
  match parCols los.length order with
  | none => none
  | some cols =>
    match pick los cols, pick his cols with
    | some l, some h => some (axesOf l h)
    | _, _ => none

/-- `parallel_axes_plot`: `los / his` are the archive's lower / upper bounds, `order` is
`measure_order` (`none` = all measures in order) -/
def parallelPlot (los his : List Rat) (order : Option (List Int)) (elites : List Elite)
    (sort : Bool) (vmin vmax : Option Rat) : Except Err (List ParLine × (Rat × Rat)) :=
  match parCols los.length order with
  | none => .error .value
  | some cols =>
    match clim (elites.map (·.obj)) vmin vmax with
    | .error e => .error e
    | .ok (lo, hi) =>
      match pick los cols, pick his cols with
      | some l, some h =>
        let es := if sort then sortByObj elites else elites
        match allSome (es.map (fun e => (pick e.meas cols).map
                (fun ys => (⟨e.obj, normClip lo hi e.obj, normYs (axesLo l h) (axesHi l h) ys⟩ : ParLine)))) with
        | some lines => .ok (lines, (lo, hi))
        | none => .error .index
      | _, _ => .error .index

end Pyribs.Viz
