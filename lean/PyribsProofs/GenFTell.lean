import PyribsGen.Control
import PyribsModel.EsControl
/-!
# GenFTell — what `tell` of the evolution-strategy emitters does, in which order, read from the source

`harness/translate/control.py` (effects mode) walks the body of `EvolutionStrategyEmitter.tell` and
`GradientArborescenceEmitter.tell`: every call on a collaborator (ranker, optimizer, gradient
optimizer, archive) becomes an entry of a list in call order, under the condition of the `if` it
sits in; `self._itrs += 1` and `self._restarts += 1` become functions of the counters.  The theorems
state that the model's `EsControl.tell` performs exactly this trace and moves the counters exactly
so — for every configuration, state and input on which the call returns.
-/
namespace Pyribs.GenFProofs
open Pyribs Pyribs.EsControl

/-- the name under which the translator lists a call -/
def actName {ν : Type} : Act ν → String
  | .rank _ _ => "rank"
  | .optTell _ _ _ => "optTell"
  | .gradStep => "gradStep"
  | .checkStop _ => "checkStop"
  | .sampleElite => "sampleElite"
  | .gradReset _ => "gradReset"
  | .optReset _ => "optReset"
  | .rankerReset => "rankerReset"
  | .incRestarts => "incRestarts"

/-- the generated trace / counters for the emitter kind -/
def genEffects (k : Kind) (stop fires npPos : Bool) : List String :=
  match k with
  | .es => GenC.esTellEffects stop fires npPos
  | .gae => GenC.gaeTellEffects stop fires npPos
def genItrs (k : Kind) (stop fires npPos : Bool) (itrs : Nat) : Nat :=
  match k with
  | .es => GenC.esTellItrs stop fires npPos itrs
  | .gae => GenC.gaeTellItrs stop fires npPos itrs
def genRestarts (k : Kind) (stop fires npPos : Bool) (r : Nat) : Nat :=
  match k with
  | .es => GenC.esTellRestarts stop fires npPos r
  | .gae => GenC.gaeTellRestarts stop fires npPos r

/-- **GT1** a `tell` that returns performs exactly the calls of the source, in source order, restarts
exactly under the source's condition, and moves `itrs` / `restarts` as the source does -/
theorem tell_trace_from_source {ν : Type} (cfg : Cfg) (s s' : St) (t : TellIn ν) (o : Out ν)
    (h : tell cfg s t = (s', .ok o)) :
    ∃ sorted, gather (t.rank t.sols t.statuses).2 (t.rank t.sols t.statuses).1 = some sorted ∧
      let stop := t.stop sorted
      let fires := checkRestart cfg.rule (s.itrs + 1) (newSols t.statuses)
      let npPos := decide (0 < numParents cfg t.statuses)
      o.acts.map actName = genEffects cfg.kind stop fires npPos ∧
      s'.itrs = genItrs cfg.kind stop fires npPos s.itrs ∧
      s'.restarts = genRestarts cfg.kind stop fires npPos s.restarts ∧
      o.restart = (stop || fires) := by
  unfold tell at h
  by_cases h1 : t.statuses.length ≠ t.sols.length
  · simp [h1] at h
  by_cases h2 : cfg.kind = .gae ∧ s.hasJac = false
  · simp [h1, h2] at h
  simp only [h1, h2, if_false] at h
  cases hg : gather (t.rank t.sols t.statuses).2 (t.rank t.sols t.statuses).1 with
  | none =>
    rw [hg] at h
    simp at h
  | some sorted =>
    rw [hg] at h
    refine ⟨sorted, rfl, ?_⟩
    simp only at h
    by_cases hc : (t.stop sorted || checkRestart cfg.rule (s.itrs + 1) (newSols t.statuses)) = true
    · rw [if_pos hc] at h
      cases he : sampleElite t.arch t.rnd with
      | none =>
        rw [he] at h
        simp at h
      | some e =>
        rw [he] at h
        simp only [Prod.mk.injEq, Res.ok.injEq] at h
        obtain ⟨rfl, rfl⟩ := h
        cases hk : cfg.kind <;>
          (by_cases hp : 0 < numParents cfg t.statuses <;>
            simp [genEffects, genItrs, genRestarts, GenC.esTellEffects, GenC.gaeTellEffects, GenC.esTellItrs,
              GenC.gaeTellItrs, GenC.esTellRestarts, GenC.gaeTellRestarts, handoffActs, stepActs, restartActs,
              actName, hk, hc, hp])
    · rw [if_neg hc] at h
      simp only [Prod.mk.injEq, Res.ok.injEq] at h
      obtain ⟨rfl, rfl⟩ := h
      have hc' : (t.stop sorted || checkRestart cfg.rule (s.itrs + 1) (newSols t.statuses)) = false := by
        simpa using hc
      cases hk : cfg.kind <;>
        (by_cases hp : 0 < numParents cfg t.statuses <;>
          simp [genEffects, genItrs, genRestarts, GenC.esTellEffects, GenC.gaeTellEffects, GenC.esTellItrs,
            GenC.gaeTellItrs, GenC.esTellRestarts, GenC.gaeTellRestarts, handoffActs, stepActs,
            actName, hk, hc', hp])

end Pyribs.GenFProofs
