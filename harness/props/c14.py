"""C14 — ProximityArchive admits by novelty, is append-only, replaces only by competition.

The runner also serves the ProximityArchive clauses of C02 / C06 / C07 (`PX_PROPS`).
"""
import copy
import math
from fractions import Fraction as F

import numpy as np

import archlib
from archlib import NP, batch_kwargs, decode_tok, fr, solution_of, to_dtype
from core import Driver, Failure, q, ql

ID = "C14"
from genf import translate  # noqa: E402,F401  (regenerates lean/PyribsGen/{Formulas,Control}.lean from the tree under check)
PROOF_MODULES = ["PyribsProofs.C14", "PyribsGen.Control", "PyribsProofs.GenFProx"]
THEOREMS = [
    "Pyribs.GenFProofs.novel_enough_is_ge",
    "Pyribs.GenFProofs.novel_decision_from_source",
    "Pyribs.C14.sqrtLo_le",
    "Pyribs.C14.le_sqrtHi",
    "Pyribs.C14.sqrt_bracket_real",
    "Pyribs.C14.bracket_sound",
    "Pyribs.C14.novelDec_empty",
    "Pyribs.C14.novelDec_sound",
    "Pyribs.C14.novelDec_sound_k1",
    "Pyribs.C14.admission_sound",
    "Pyribs.C14.sortNb_perm",
    "Pyribs.C14.sortNb_sorted",
    "Pyribs.C14.kNearest_spec",
    "Pyribs.C14.nearestSet_spec",
    "Pyribs.C14.assign_flags_length",
    "Pyribs.C14.assign_respects_decision",
    "Pyribs.C14.assign_novel_fresh",
    "Pyribs.C14.inv_new",
    "Pyribs.C14.inv_add",
    "Pyribs.C14.inv_clear",
    "Pyribs.C14.inv_history",
    "Pyribs.C14.novel_fresh",
    "Pyribs.C14.append_only",
    "Pyribs.C14.append_only_history",
    "Pyribs.C14.replace_iff",
    "Pyribs.C14.competitors_nearest",
    "Pyribs.C14.growCap_spec",
    "Pyribs.C14.capacity_ge_len",
    "Pyribs.C14.capacity_add",
    "Pyribs.C14.capacity_mono_step",
    "Pyribs.C14.bounds_none_iff",
    "Pyribs.C14.bounds_after_clear",
    "Pyribs.C14.bounds_spec",
    "Pyribs.C14.nonvacuous",
]
RULE = ("lock-step histories of add / add_single / clear on ProximityArchive with k_neighbors in {1,2,3,5}, "
        "novelty thresholds {0,1,3/2,5/2,5}, initial_capacity in {1,2,3,128}, 1-3 measure dimensions, float32/64, "
        "with and without local competition and objectives; measures on an integer lattice (exact distances, many "
        "exact ties, 3-4-5 triangles put the novelty exactly on the threshold); batches mix novel and non-novel "
        "candidates, duplicates and several competitors for one neighbour; growth across several capacity "
        "doublings; the oracle is brute-force k-nearest neighbours in exact arithmetic with integer square-root "
        "brackets; non-trivial when a batch contains both a novel and a non-novel candidate or the capacity grows. "
        "Every history may also contain: checkpoints (continue on a pickled / deep-copied archive); non-default "
        "ckdtree_kwargs (leafsize, balanced_tree, compact_nodes, copy_data; boxsize 1024 with the whole history inside "
        "less than half a box, where the wrapped distance is the Euclidean one) passed as a dict object that the harness "
        "changes after construction and re-uses for further (periodic) archives; calls that must be REJECTED at random "
        "points (an extra field as a column vector / with an extra trailing or leading axis / one entry too wide, a core "
        "argument with an extra axis, a candidate outside the periodic box, the malformed calls of C11's fault table; "
        "always next to a candidate that would have to be stored), after which entries, statistics, best elite, bounds, "
        "self-retrieval and compute_novelty / index_of against brute force must be as if the call had never happened "
        "and the remaining history stays in lock step with the model; bounds are compared with the min / max of the "
        "stored measures after every operation, read from the archive itself or (to vary WHEN its cache is filled) "
        "from a deep copy")
PARTIAL = ["k>1 novelty is a sum of square roots: bracketed by rationals at 2^-40; a candidate whose novelty bracket "
           "contains the threshold may be admitted or not (counted in the evidence as undecided)",
           "local_competition counts are compared only when the k-th and (k+1)-th neighbours are not equidistant"]
ASSUMPTIONS = ["the nearest stored entry of a non-novel candidate is taken from archive.index_of before the call "
               "(deterministic k-D tree query) and validated against the exact nearest set (angelic choice)"]
PX_PROPS = {"C14", "C02", "C06", "C07"}
PREC = 40
# non-default options for the k-D tree (`ckdtree_kwargs`): none of them changes a distance
TREE_OPTS = [{"leafsize": 1}, {"leafsize": 2}, {"leafsize": 3, "balanced_tree": False}, {"compact_nodes": False},
             {"balanced_tree": False, "compact_nodes": False}, {"leafsize": 40, "copy_data": True}, {}]
# a periodic measure space (`boxsize`): the whole history lives in [BOX_SHIFT - 32, BOX_SHIFT + 32], far less than half
# a box, so that the wrapped distance between any two points of it IS their Euclidean distance; a candidate outside
# [0, BOX_L) cannot be stored (the tree refuses such data): that call has to be rejected
BOX_L, BOX_SHIFT = 1024, 40
# what a correctly rejected add / add_single must leave untouched is judged for every property the runner serves
REJ_PROPS = ("C11", "C14")


def sqrt_bracket(x):
    """[lo, hi] rationals around sqrt(x) for a non-negative Fraction x (exact on perfect squares)."""
    n = x.numerator * x.denominator * 4**PREC
    r = math.isqrt(n)
    den = x.denominator * 2**PREC
    return F(r, den), F(r if r * r == n else r + 1, den)


def gen_case(rng, nd=None):
    nd = nd or rng.choice([1, 2, 2, 3])
    lc = rng.random() < 0.5
    case = {"kind": "prox", "nd": nd, "k": rng.choice([1, 1, 2, 3, 5]), "nu": rng.choice([q(F(0)), q(F(1)), q(F(3, 2)), q(F(5, 2)), q(F(5)), "7/10", "9/10", "13/10"]),
            "lc": lc, "cap": rng.choice([1, 2, 3, 128]), "dtype": rng.choice(["f64", "f64", "f32"]),
            "layout": rng.choice(["", "s", "o", "sv", "u", "uw"]), "sol_dim": rng.choice([1, 2]),
            "off": q(rng.choice([F(0), F(-8)])), "noobj": (not lc) and rng.random() < 0.3}
    span = rng.choice([2, 6, 6, 12])
    tok = [0]
    # replace-heavy histories (local competition): a high threshold on a small lattice makes most candidates
    # non-novel, rising objectives make them win, so whole calls consist of replacements that move stored entries
    climb = lc and rng.random() < 0.4
    if climb:
        case["nu"] = rng.choice([q(F(5, 2)), q(F(5)), "13/10"])
        span = rng.choice([2, 3, 6])

    seen = []

    def row(novel=False):
        tok[0] += 1
        nu = F(case["nu"])
        if novel:
            # a lattice point at least 8 away (in its first coordinate) from everything the history ever submits
            # (lattice within +-span, probes at most 5 + 3/2^20 beyond): novel for every threshold drawn above, whatever
            # the archive holds -- used by the calls that must be REJECTED, so that the store would have to write
            m = [q(F(rng.choice([-1, 1]) * (span + 14 + rng.randint(0, 6)))) if i == 0 else q(F(rng.randint(-span, span)))
                 for i in range(nd)]
            return [tok[0], q(F(rng.randint(-6, 6), rng.choice([1, 2]))), m]
        if seen and nu > 0 and rng.random() < 0.12:
            # a probe a few parts per million inside / outside the threshold sphere of an earlier point (axis
            # aligned, so the distance is exact): admission is decided by `novelty >= threshold`, not "close to"
            base = rng.choice(seen)
            ax = rng.randrange(nd)
            # (a radius on the 2^-20 grid: exactly representable next to a lattice coordinate in float32 and float64,
            # so that probes around different points do not become rounding near-ties of each other)
            import math
            if rng.random() < 0.67:
                r = F(math.floor(nu * 2**20) - rng.choice([0, 1, 1, 3]), 2**20)
            else:
                r = F(math.ceil(nu * 2**20) + rng.choice([0, 1, 3]), 2**20)
            m = [q(F(x) + (r if i == ax else 0)) for i, x in enumerate(base)]
            return [tok[0], q(F(rng.randint(-6, 6), rng.choice([1, 2]))), m]
        m = [q(F(rng.randint(-span, span))) for _ in range(nd)]
        seen.append(m)
        if climb:
            return [tok[0], q(F(tok[0] + rng.randint(-3, 3), rng.choice([1, 2]))), m]
        if rng.random() < 0.15:
            m = [q(F(rng.choice([0, 3, 4, -3, -4]))) for _ in range(nd)]
        return [tok[0], q(F(rng.randint(-6, 6), rng.choice([1, 2]))), m]

    # `tenths`: objectives k/10 -- not representable, so that what the archive holds (the value rounded to its dtype)
    # differs from what the caller passed, and frequent exact ties: every comparison of a candidate with stored
    # objectives (competition, the count of neighbours with a lower objective) is between values of the archive's dtype
    if rng.random() < 0.25:
        case["tenths"] = True
        plain_row = row

        def row(novel=False):      # noqa: F811
            t, o, m = plain_row(novel)
            return [t, q(F(rng.randint(-5, 5), 10)), m]

    # `far`: a float32 archive whose measures sit around +-2^20 (one ulp = 1/8) while the candidates are submitted as
    # float64 values on a 1/16 grid: the archive judges and stores the value *rounded to its dtype* (batch and single
    # alike), so an unrounded comparison is off by up to 1/16 against thresholds of 7/10 .. 5
    far = rng.random() < 0.18
    if far:
        case["dtype"] = "f32"
        case["far"] = True
        base_row = row

        def row(novel=False):      # noqa: F811
            t, o, m = base_row(novel)
            sh = [F(2**20), F(-2**20), F(2**19)]
            return [t, o, [q(F(x) + sh[i % 3] + F(rng.randrange(16), 16)) for i, x in enumerate(m)]]

    # non-default k-D tree options, passed as a dict object that the harness goes on using (it is mutated and handed to
    # a second archive right after construction and again at the `kwmut` operations): the archive under test keeps
    # the options it was constructed with
    if rng.random() < 0.5:
        case["tree"] = dict(rng.choice(TREE_OPTS))
        if not far and rng.random() < 0.35:
            case["tree"]["boxsize"] = rng.choice([BOX_L, float(BOX_L), [float(BOX_L)] * nd])
            case["box"] = True

    # when (after which operation) the bounds are looked at: both after every operation (the cached values are then
    # always filled in before the next call), one of them only, or neither (then they are judged on a deep copy, which
    # carries the cache along but leaves the archive's own cache as it is)
    peeks = rng.choice([["both"], ["both", "both", "lower", "upper", "none", "none"], ["none", "none", "both"]])

    ops = []
    for _ in range(rng.randint(3, 12)):
        r = rng.random()
        if r < 0.6:
            n = rng.choice([0, 1, 2, 3, 4, 6, 8])
            rows = [row() for _ in range(n)]
            if len(rows) >= 2 and rng.random() < 0.4:
                rows[-1][2] = rows[0][2]          # duplicate measures inside the batch
            ops.append({"op": "add", "rows": rows})
        elif r < 0.85:
            ops.append({"op": "add1", "row": row()})
        elif r < 0.92:
            ops.append({"op": "clear"})
        else:
            ops.append({"op": "bounds"})
    for op in ops:
        op["peek"] = rng.choice(peeks)
    case["ops"] = ops
    case["forms"] = archlib.gen_forms(rng)
    if case["forms"]["dtype"] == "dictmix":      # mixed objective / measures precision: fixed-cell runner only
        case["forms"]["dtype"] = "dictsol"
    # calls that must be REJECTED, at random points of the history (the archive is used again afterwards): an extra
    # field in a shape that cannot be written (a column vector / an extra trailing axis / a wrong extent / an extra
    # leading axis), a core argument with an extra trailing axis, a candidate outside the periodic box -- always in
    # a batch with a candidate that is novel whatever the archive holds, so that the store would have to write
    if rng.random() < 0.45:
        for _ in range(rng.choice([1, 1, 2, 3])):
            single = rng.random() < 0.3
            n = 1 if single else rng.choice([1, 2, 2, 3, 3, 4, 6])
            rows = [row() for _ in range(n - 1)] + [row(novel=True)]
            rng.shuffle(rows)
            hows = ["column", "trail", "wide", "lead", "core"] + (["box"] * 5 if case.get("box") else [])
            ops.insert(rng.randint(0, len(ops)), {"op": "rej", "entry": "add1" if single else "add", "how": rng.choice(hows),
                                                  "rows": rows, "field": rng.randrange(12), "variant": rng.randrange(12),
                                                  "pos": rng.randrange(n), "peek": rng.choice(peeks)})
    if "tree" in case:
        for _ in range(rng.choice([0, 1, 1, 2])):
            ops.insert(rng.randint(0, len(ops)), {"op": "kwmut", "how": rng.randrange(8)})
    # checkpoints (continue on a pickled / deep-copied archive) and malformed calls of every entry point
    archlib.sprinkle(rng, case, rows_fn=row, prox_noobj_ok=not lc)
    return box_shift(case)


def box_shift(case):
    """periodic measure space: move the whole history into the box (see BOX_L)"""
    if case.get("box"):
        for op in case["ops"]:
            for r_ in op.get("rows", []) + ([op["row"]] if "row" in op else []):
                r_[2] = [q(F(x) + BOX_SHIFT) for x in r_[2]]
    return case


def make(case, keep=None):
    """the archive of the case; `keep` (a list) receives the very dict object that was passed as `ckdtree_kwargs`"""
    from ribs.archives import ProximityArchive
    kw = dict(local_competition=case["lc"], initial_capacity=case["cap"], qd_score_offset=float(fr(case["off"])),
              dtype=archlib.dtype_arg(case), extra_fields=archlib.extra_fields(case["layout"]))
    # options at their documented default are omitted: the default itself is what runs, and the oracles (which read
    # the case) judge it against the documented value
    if not case["lc"]:
        del kw["local_competition"]
    if case["cap"] == 128:
        del kw["initial_capacity"]
    if fr(case["off"]) == 0:
        del kw["qd_score_offset"]
    if not case["layout"]:
        del kw["extra_fields"]
    if case["dtype"] == "f64" and case.get("forms", {}).get("dtype", "one") == "one":
        del kw["dtype"]
    if case.get("tree") is not None:
        opts = {k: (np.array(v, dtype=np.float64) if isinstance(v, list) else v) for k, v in case["tree"].items()}
        kw["ckdtree_kwargs"] = opts
        if keep is not None:
            keep.append(opts)
    return ProximityArchive(solution_dim=case["sol_dim"], measure_dim=case["nd"], k_neighbors=case["k"],
                            novelty_threshold=float(fr(case["nu"])), seed=0, **kw)


def obs_case(case):
    return {"layout": case["layout"], "sol_dim": case["sol_dim"]}


class Run:

    def __init__(self, case, props):
        self.case, self.props = case, set(props)
        keep = []
        self.a = make(case, keep)
        # the dict that was passed as `ckdtree_kwargs` stays in the caller's hands: it is changed and re-used for a
        # second archive (a periodic one) straight away and again later in the history
        self.opts = keep[0] if keep else None
        self.others = []
        self.stat = {}
        self.peek = "both"
        self.kwmut(0)
        self.dt = case["dtype"]
        self.nu = F(float(self.a.novelty_threshold))
        self.drv = Driver("prox")
        self.drv.ask(f"new k={case['k']} nu={q(self.nu)} lc={int(case['lc'])} off={q(F(float(self.a.qd_score_offset)))} "
                     f"cap={case['cap']} dim={case['nd']}")
        self.undecided = 0
        self.grew = 0
        self.submitted = {}
        self.after_bad = None

    def bump(self, key):
        self.stat[key] = self.stat.get(key, 0) + 1

    def kwmut(self, how):
        """The caller changes the options dict it once passed to the constructor and sets up another archive with it
        (a periodic measure space of a few units: distances there wrap around)."""
        o = self.opts
        if o is None:
            return
        from ribs.archives import ProximityArchive
        nd = self.case["nd"]
        how = how % 4
        if how == 0:
            o["boxsize"] = 2.0
            o["leafsize"] = 1
        elif how == 1:
            o.clear()
            o["boxsize"] = np.full(nd, 1.0)
        elif how == 2:
            o.pop("leafsize", None)
            o.update(boxsize=0.5, balanced_tree=True)
        else:
            o.update(boxsize=4.0, compact_nodes=True)
        other = ProximityArchive(solution_dim=1, measure_dim=nd, k_neighbors=1, novelty_threshold=0.01, ckdtree_kwargs=o)
        other.add([[0.0], [1.0]], None, [[0.25] * nd, [0.125] * nd])
        for old in self.others[-2:]:
            old.add_single([2.0], None, [0.375] * nd)       # the earlier ones stay in use, too
        self.others.append(other)
        self.bump(f"kwmut:{how}")

    def F_(self, prop, kind, what):
        if "C11" in self.props:
            if prop == "C11":
                return Failure(kind, f"[C11] {what}")
            if self.after_bad:
                return Failure(kind, f"[C11] after a rejected call ({self.after_bad}) the remaining valid history no "
                               f"longer behaves as if that call had never happened: {what}")
            return None
        return Failure(kind, f"[{prop}] {what}") if prop in self.props else None

    def F_any(self, props, kind, what):
        """a failure that violates several properties at once: attributed to the first one this run serves"""
        for prop in props:
            f = self.F_(prop, kind, what)
            if f is not None:
                return f
        return None

    def snapshot(self, peek="both"):
        o = self.obs()
        o.pop("bad")
        # `capacity` is deliberately not part of the C11 snapshot: ProximityArchive.add grows the store before the
        # store validates the field set, so a rejected call may leave the capacity doubled; C11 lists contents,
        # thresholds, statistics and best elite (DESIGN section 3, observed, not claimed)
        lo, hi = self.read_bounds(peek)
        o["lower_bounds"] = None if lo is None else [float(x) for x in lo]
        o["upper_bounds"] = None if hi is None else [float(x) for x in hi]
        return o

    def read_bounds(self, peek="both"):
        """(lower_bounds, upper_bounds), each a list of exact values or None when unavailable.  The sides named by
        `peek` (both / lower / upper / none) are read from the archive itself, which fills its cache; the others
        from a deep copy, which carries a cached (possibly stale) value along but leaves the archive's own cache as it
        is -- so the histories differ in WHEN the archive's bounds were last looked at."""
        twin = None
        out = []
        for name, tag in (("lower_bounds", "lower"), ("upper_bounds", "upper")):
            if peek in ("both", tag):
                src = self.a
            else:
                twin = twin if twin is not None else copy.deepcopy(self.a)
                src = twin
            try:
                out.append([F(float(x)) for x in getattr(src, name)])
            except RuntimeError:
                out.append(None)
        self.bump(f"bounds-read:{peek}")
        return tuple(out)

    def make_sched(self, entry, n):
        from ribs.emitters import GaussianEmitter
        from ribs.schedulers import BanditScheduler, Scheduler
        import faultlib
        em = faultlib.sched_emitters(self.a, n, self.case["sol_dim"])
        return Scheduler(self.a, em) if entry == "sched_tell" else BanditScheduler(self.a, em, num_active=len(em))

    def do_bad(self, op, where):
        import faultlib
        if op["entry"] in ("retrieve", "retrieve_single", "index_of", "index_of_single") and len(self.a) == 0:
            return None   # documented RuntimeError on an empty ProximityArchive
        if op["arg"] == "objective" and op["kind"] == "none" and not self.case["lc"]:
            return None   # diversity optimisation: objective None is valid without local competition
        pre = self.snapshot()
        cap_before = int(self.a.capacity)
        res, exc = faultlib.inject(self.a, op, self.dt, self.case["sol_dim"], self.case["nd"], self.case["layout"],
                                   sched=self.make_sched)
        self.stat[f"bad:{op['entry']}:{op['arg']}:{op['kind']}:{res}"] = 1
        if res == "skip":
            return None
        desc = f"{op['entry']}({op['arg']}: {op['kind']} at row {op['pos']} of {len(op['rows'])})"
        try:
            post = self.snapshot()
        except (OverflowError, ValueError) as e:
            return self.F_any(REJ_PROPS, "oracle", f"{where}: malformed call {desc} "
                           f"{'raised ' + str(exc) if res == 'raised' else 'was accepted without an error'} and left "
                           f"non-finite values in the archive ({type(e).__name__}: {e})")
        if res == "accepted" and faultlib.must_raise(op):
            return self.F_any(REJ_PROPS, "oracle", f"{where}: malformed call {desc} was accepted without an error")
        if res == "accepted":
            if post != pre:
                return self.F_any(REJ_PROPS, "oracle", f"{where}: malformed call {desc} was accepted without an error and "
                               f"changed the archive: {[k for k in pre if pre[k] != post[k]]}")
            return None
        if post != pre:
            return self.F_any(REJ_PROPS, "oracle", f"{where}: {desc} raised {exc} but changed the archive: "
                           f"{[k for k in pre if pre[k] != post[k]]}")
        if int(self.a.capacity) != cap_before:
            self.stat["bad:capacity-grew-on-rejected-call"] = self.stat.get("bad:capacity-grew-on-rejected-call", 0) + 1
            self.drv.ask(f"setcap {int(self.a.capacity)}")
        self.after_bad = desc
        return None

    def malform(self, op, sol, obj, meas, extras):
        """The arguments of a call that must be rejected (`rej` operation), or None when this malformation does not
        apply to the case.  Batch form; an add_single gets row 0 of everything."""
        how, layout, nd = op["how"], self.case["layout"], self.case["nd"]
        n = len(sol)
        names = list(extras)
        scalars = [k for k in names if extras[k].ndim == 1]
        if how in ("column", "trail", "wide", "lead") and not names:
            how = "core"                                  # no extra field to mis-shape: a core argument instead
        if how == "column":
            # a scalar field handed over as a column vector (n, 1)
            name = (scalars or names)[op["field"] % len(scalars or names)]
            extras = dict(extras, **{name: extras[name].reshape((n, 1) + extras[name].shape[1:])})
            what = f"extra field {name} of shape {extras[name].shape}"
        elif how == "trail":
            # any field with an extra trailing axis of extent 1
            name = names[op["field"] % len(names)]
            extras = dict(extras, **{name: extras[name][..., None]})
            what = f"extra field {name} of shape {extras[name].shape}"
        elif how == "wide":
            # one entry too many along the last axis of the field (a row of three for a scalar field)
            name = names[op["field"] % len(names)]
            v = extras[name]
            v = np.repeat(v[:, None], 3, axis=1) if v.ndim == 1 else np.concatenate([v, v[..., :1]], axis=-1)
            extras = dict(extras, **{name: v})
            what = f"extra field {name} of shape {v.shape}"
        elif how == "lead":
            # an extra leading axis: (1, n, ...) -- or (n, n, ...) in a batch of one
            name = names[op["field"] % len(names)]
            v = extras[name][None] if n > 1 else np.stack([extras[name], extras[name]])
            extras = dict(extras, **{name: v})
            what = f"extra field {name} of shape {v.shape}"
        elif how == "core":
            arg = ["solution", "measures", "objective"][op["variant"] % (2 if obj is None else 3)]
            if arg == "solution":
                sol = sol[..., None]
            elif arg == "measures":
                meas = meas[..., None]
            else:
                obj = obj[..., None]
            what = f"{arg} with an extra trailing axis"
        elif how == "box":
            if not self.case.get("box"):
                return None
            # one candidate outside the periodic box [0, L): by a whole box and a half, by half a box below zero,
            # just beyond the upper edge, on the upper edge, just below zero (all of them wrap to a place at least 7
            # away from everything in the history: novel, so the archive would have to store it)
            meas = meas.copy()
            ax, v = op["field"] % nd, op["variant"] % 5
            x = meas[op["pos"] % n, ax]
            meas[op["pos"] % n, ax] = [x + 1.5 * BOX_L, x - 0.5 * BOX_L, BOX_L + 1.0, float(BOX_L), -1.0][v]
            what = f"measures {meas[op['pos'] % n].tolist()} outside the periodic box of size {BOX_L}"
        else:
            return None
        return sol, obj, meas, extras, what

    def probe(self, post, qs, where, props):
        """novelty / nearest entry of the measures `qs` as the archive computes them now, against brute force over
        the entries it holds now (bracketed exact arithmetic, as in do_add)"""
        rows = sorted(post["rows"].items())
        if not rows or not qs:
            return None
        dt, k = self.dt, min(self.case["k"], len(rows))
        arr = np.array([[float(x) for x in m] for m in qs], dtype=NP[dt])
        nov = [F(float(x)) for x in np.atleast_1d(self.a.compute_novelty(arr))]
        near = [int(i) for i in self.a.index_of(arr)]
        tol = archlib.TOL[dt]
        for m, v, j in zip(qs, nov, near):
            d2 = sorted((sum((a - b)**2 for a, b in zip(r["meas"], m)), i) for i, r in rows)
            br = [sqrt_bracket(x[0]) for x in d2[:k]]
            lo, hi = sum(b[0] for b in br) / k, sum(b[1] for b in br) / k
            if not (lo - tol * max(1, hi) <= v <= hi + tol * max(1, hi)):
                return self.F_any(props, "oracle", f"{where}: compute_novelty({[str(x) for x in m]}) = {float(v)} outside the "
                                  f"exact bracket [{float(lo)}, {float(hi)}] of the mean distance to the {k} nearest of the "
                                  f"{len(rows)} entries the archive holds")
            if j not in post["rows"] or sum((a - b)**2 for a, b in zip(post["rows"][j]["meas"], m)) != d2[0][0]:
                return self.F_any(props, "oracle", f"{where}: index_of({[str(x) for x in m]}) = {j} is not a nearest one of "
                                  f"the {len(rows)} entries the archive holds")
        return None

    def do_rej(self, op, where):
        """A call that must be rejected (see `malform`), somewhere in the history; the archive is used again
        afterwards.  What it holds and reports -- entries, statistics, best elite, bounds, the novelty and nearest
        entry of later candidates -- must be as if the call had never happened."""
        case, dt = self.case, self.dt
        sd, layout, nd = case["sol_dim"], case["layout"], case["nd"]
        rows = op["rows"]
        single = op["entry"] == "add1"
        toks = [r[0] for r in rows]
        sol = np.array([solution_of(t, sd) for t in toks], dtype=NP[dt]).reshape(len(rows), sd)
        obj = None if case["noobj"] else np.array([float(fr(r[1])) for r in rows], dtype=np.float64)
        meas = np.array([[float(fr(m)) for m in r[2]] for r in rows], dtype=np.float64).reshape(len(rows), nd)
        args = self.malform(op, sol, obj, meas, batch_kwargs(layout, toks))
        if args is None:
            self.bump(f"rej:{op['entry']}:{op['how']}:skip")
            return None
        sol, obj, meas, extras, what = args

        def call(archive):
            try:
                if single:
                    archive.add_single(sol[0], None if obj is None else obj[0], meas[0], **{k: v[0] for k, v in extras.items()})
                else:
                    archive.add(sol, obj, meas, **extras)
            except (ValueError, TypeError, IndexError, RuntimeError) as e:      # (documented: ValueError)
                return f"{type(e).__name__}: {str(e)[:120]}"
            return None

        # NumPy's own semantics may make such a call valid (a batch of one whose extra axis of extent 1 is dropped on
        # assignment): it is first tried on a deep copy and made on the archive only if that copy rejects it
        if call(copy.deepcopy(self.a)) is None:
            self.bump(f"rej:{op['entry']}:{op['how']}:skip-valid-for-numpy")
            return None
        pre = self.snapshot(self.peek)
        cap_before = int(self.a.capacity)
        exc = call(self.a)
        self.bump(f"rej:{op['entry']}:{op['how']}:{'raised' if exc else 'accepted'}")
        desc = f"{'add_single' if single else 'add'}({what}; {len(rows)} candidate{'s' if len(rows) != 1 else ''})"
        verb = f"raised {exc}" if exc else "was accepted without an error"
        try:
            post = self.snapshot(self.peek)
        except (OverflowError, ValueError) as e:
            return self.F_any(REJ_PROPS, "oracle", f"{where}: {desc} {verb} and left non-finite values in the archive "
                              f"({type(e).__name__}: {e})")
        if int(self.a.capacity) != cap_before:
            self.bump("rej:capacity-grew-on-rejected-call")
            self.drv.ask(f"setcap {int(self.a.capacity)}")
        prev, self.after_bad = self.after_bad, desc
        tag = f"{where}: after {desc} {verb}"
        # whatever the call left behind, the statistics describe the entries the archive lists
        f = self.stats_check(post, tag, props=("C06",) + REJ_PROPS)
        if f is None and post != pre:
            diff = [k for k in pre if pre[k] != post[k]]
            f = self.F_any(REJ_PROPS, "oracle", f"{where}: {desc} {verb} {'but' if exc else 'and'} changed the archive: {diff} "
                           f"(len {pre['len']} -> {post['len']}, entries {sorted(pre['rows'])} -> {sorted(post['rows'])})")
        # the derived views (bounds, the neighbour index behind novelty / retrieval) describe them, too
        qs = [[to_dtype(fr(x), dt) for x in r[2]] for r in rows] if op["how"] != "box" else []
        qs += [r["meas"] for _, r in sorted(post["rows"].items())[:3]]
        f = f or self.bounds_check(post, tag) or self.self_retrieval(post, tag, props=("C07",) + REJ_PROPS) \
            or self.probe(post, qs, tag, REJ_PROPS)
        if f is not None:
            return f
        if not exc:
            self.after_bad = prev       # nothing was rejected (no candidate had to be written): lenient, as in do_bad
        return None

    def obs(self):
        return archlib.observe(self.a, obs_case(self.case))

    def bounds_check(self, post, where):
        rows = post["rows"]
        got = self.read_bounds(self.peek)   # each bound on its own: one being unavailable must not hide a stale other
        if (got[0] is None) != (got[1] is None):
            return self.F_("C14", "oracle", f"{where}: lower_bounds is {'un' if got[0] is None else ''}available but "
                           f"upper_bounds is {'un' if got[1] is None else ''}available")
        got = None if got[0] is None else got
        if not rows:
            want = None
        else:
            want = ([min(r["meas"][k] for r in rows.values()) for k in range(self.case["nd"])],
                    [max(r["meas"][k] for r in rows.values()) for k in range(self.case["nd"])])
        if got != want:
            return self.F_("C14", "oracle", f"{where}: reported bounds {got and [[str(x) for x in b] for b in got]} but the "
                           f"current contents give {want and [[str(x) for x in b] for b in want]}"
                           f"{' (archive is empty: bounds must be unavailable)' if want is None else ''}")
        return None

    def do_add(self, rows, single, where):
        case, dt = self.case, self.dt
        sd, layout, nd = case["sol_dim"], case["layout"], case["nd"]
        crows = [(r[0], to_dtype(fr(r[1]), dt), [to_dtype(fr(m), dt) for m in r[2]]) for r in rows]
        if case["noobj"]:
            crows = [(t, F(0), m) for t, _, m in crows]
        pre = self.obs()
        n = len(pre["rows"])
        cap_pre = int(self.a.capacity)
        toks = [r[0] for r in rows]
        sol = np.array([solution_of(t, sd) for t in toks], dtype=NP[dt]).reshape(len(rows), sd)
        obj = None if case["noobj"] else np.array([float(fr(r[1])) for r in rows], dtype=np.float64)
        meas = np.array([[float(fr(m)) for m in r[2]] for r in rows], dtype=np.float64).reshape(len(rows), nd)
        extras = batch_kwargs(layout, toks)
        # hints from public, side-effect free queries on the pre-call archive
        if rows:
            nov_pre = [F(float(x)) for x in np.atleast_1d(self.a.compute_novelty(meas.astype(NP[dt])))]
            near = [int(i) for i in self.a.index_of(meas.astype(NP[dt]))] if n else [None] * len(rows)
        else:
            nov_pre, near = [], []
        info = archlib.submit(self.a, case, single, sol, obj, meas, extras)
        status = [int(s) for s in np.atleast_1d(info["status"])] if rows or "status" in info else []
        novelty = [F(float(x)) for x in np.atleast_1d(info["novelty"])] if rows else []
        if rows and novelty != nov_pre:
            return self.F_("C14", "oracle", f"{where}: reported novelty {novelty} differs from compute_novelty before the call {nov_pre}")
        post = self.obs()
        cap_post = int(self.a.capacity)
        if post["bad"]:
            f = self.F_("C14", "oracle", f"{where}: {post['bad']}")
            if f:
                return f
        # ---- oracle: brute-force k nearest neighbours in exact arithmetic on the pre-call entries
        tol = archlib.TOL[dt]
        pre_list = sorted(pre["rows"].items())
        if [i for i, _ in pre_list] != list(range(n)):
            return self.F_("C14", "oracle", f"{where}: entries are not at indices 0..n-1: {[i for i, _ in pre_list]}")
        novel_flags, targets = [], []
        for j, (tok, o, m) in enumerate(crows):
            self.submitted[tok] = (o, m)
            if n == 0:
                dec = True
                lo = hi = self.nu
            else:
                d2 = sorted((sum((a - b)**2 for a, b in zip(r["meas"], m)), i) for i, r in pre_list)
                kk = min(case["k"], n)
                br = [sqrt_bracket(x[0]) for x in d2[:kk]]
                lo, hi = sum(b[0] for b in br) / kk, sum(b[1] for b in br) / kk
                dec = True if self.nu <= lo else (False if hi < self.nu else None)
                dmin = d2[0][0]
                if near[j] is not None and sum((a - b)**2 for a, b in zip(pre["rows"][near[j]]["meas"], m)) != dmin:
                    return self.F_any(["C14", "C03", "C02", "C07"], "oracle",
                                      f"{where}: index_of({[str(x) for x in m]}) = {near[j]} is not a nearest stored entry of the "
                                      f"archive before the call (squared distance "
                                      f"{sum((a - b)**2 for a, b in zip(pre['rows'][near[j]]['meas'], m))} vs minimum {dmin}), so the "
                                      f"candidate is judged against / routed to the wrong entry")
            if not (lo - tol * max(1, hi) <= novelty[j] <= hi + tol * max(1, hi)):
                return self.F_("C14", "oracle", f"{where}: candidate {tok}: reported novelty {float(novelty[j])} outside the exact "
                               f"bracket [{float(lo)}, {float(hi)}] of the mean distance to its {min(case['k'], n)} nearest entries")
            impl_novel = (status[j] == 2) if not case["lc"] or True else None
            if dec is None:
                self.undecided += 1
                dec = novelty[j] >= self.nu
            if (status[j] == 2) != dec:
                return self.F_("C14", "oracle", f"{where}: candidate {tok} has novelty in [{float(lo)}, {float(hi)}] vs threshold "
                               f"{float(self.nu)}: it must {'become a new entry' if dec else 'not become a new entry'} but status is {status[j]}")
            del impl_novel
            novel_flags.append(dec)
            targets.append(None if dec else near[j])
        # expected contents
        exp = {i: (r["tok"], r["obj"], r["meas"]) for i, r in pre["rows"].items()}
        nxt = n
        comp = {}
        for (tok, o, m), nov, tg in zip(crows, novel_flags, targets):
            if nov:
                exp[nxt] = (tok, o, m)
                nxt += 1
            elif case["lc"]:
                comp.setdefault(tg, []).append((tok, o, m))
        exp_status = [2 if nov else 0 for nov in novel_flags]
        if case["lc"]:
            value = [F(float(x)) for x in np.atleast_1d(info["value"])]
            lcs = [int(x) for x in np.atleast_1d(info["local_competition"])]
            for j, ((tok, o, m), nov, tg) in enumerate(zip(crows, novel_flags, targets)):
                thr = F(0) if nov else pre["rows"][tg]["thr"]
                if not nov:
                    exp_status[j] = 1 if o > thr else 0
                if value[j] != to_dtype(o - thr, dt) and not archlib.close(value[j], o - thr, dt):
                    return self.F_("C02", "oracle", f"{where}: candidate {tok}: value {value[j]} ≠ objective − prior threshold {o - thr}") \
                        or self.F_("C14", "oracle", f"{where}: candidate {tok}: value {value[j]} ≠ {o - thr}")
            for tg, cs in comp.items():
                best = None
                for c in cs:
                    if c[1] > pre["rows"][tg]["obj"] and (best is None or c[1] > best[1]):
                        best = c
                if best is not None:
                    exp[tg] = best
        if status != exp_status:
            return self.F_("C14", "oracle", f"{where}: status {status}, expected {exp_status} (novel: {novel_flags}, targets {targets})")
        got = {i: (r["tok"], r["obj"], r["meas"]) for i, r in post["rows"].items()}
        if got != exp:
            return self.F_("C14", "oracle",
                           f"{where}: contents { {i: v[0] for i, v in sorted(got.items())} } expected "
                           f"{ {i: v[0] for i, v in sorted(exp.items())} } "
                           f"({'replace-by-competition' if case['lc'] else 'append-only'}; novel {novel_flags}, targets {targets})")
        # capacity
        want_cap = cap_pre
        while want_cap < len(exp):
            want_cap *= 2
        if cap_post != want_cap or cap_post < len(post["rows"]):
            return self.F_("C14", "oracle", f"{where}: capacity {cap_pre} -> {cap_post} with {len(exp)} entries, expected {want_cap}")
        if cap_post > cap_pre:
            self.grew += 1
        f = self.bounds_check(post, where) or self.stats_check(post, where) or self.self_retrieval(post, where)
        if f:
            return f
        # ---- model
        line = "add " + " ".join(f"{archlib.cand_line(t, o, m)}:{int(s == 2)}:{'-' if nr is None else nr}"
                                 for (t, o, m), s, nr in zip(crows, status, near)) if crows else "add"
        m = self.drv.ask(line)
        if m.startswith("reject"):
            return self.F_("C14", "corr", f"{where}: model rejects the implementation's choice: {m}")
        md = dict(t.split("=", 1) for t in m.split())
        m_status = [] if md["status"] == "-" else [int(x) for x in md["status"].split(",")]
        if status != m_status:
            return self.F_("C14", "corr", f"{where}: status impl={status} model={m_status}")
        if case["lc"] and crows:
            m_value = [F(x) for x in md["value"].split(",")]
            for v, e in zip(value, m_value):
                if v != to_dtype(e, dt) and not archlib.close(v, e, dt):
                    return self.F_("C14", "corr", f"{where}: value impl={v} model={e}")
            m_lc = [int(x) for x in md["lc"].split(",")]
            tied = [x == "1" for x in md["lctied"].split(",")]
            for a, b, t in zip(lcs, m_lc, tied):
                if not t and a != b:
                    return self.F_("C14", "corr", f"{where}: local_competition impl={lcs} model={m_lc}")
            # oracle for the count (untied case)
            for j, ((tok, o, mm), t) in enumerate(zip(crows, tied)):
                if n and not t:
                    d2 = sorted((sum((a - b)**2 for a, b in zip(r["meas"], mm)), i) for i, r in pre_list)[:min(case["k"], n)]
                    cnt = sum(1 for _, i in d2 if pre["rows"][i]["obj"] < o)
                    if lcs[j] != cnt:
                        return self.F_("C14", "oracle", f"{where}: candidate {tok}: local_competition {lcs[j]} but {cnt} of its "
                                       f"nearest neighbours have a lower objective")
        if crows:
            los, his = [F(x) for x in md["novlo"].split(",")], [F(x) for x in md["novhi"].split(",")]
            for v, lo, hi in zip(novelty, los, his):
                if not (lo - tol * max(1, hi) <= v <= hi + tol * max(1, hi)):
                    return self.F_("C14", "corr", f"{where}: novelty impl={float(v)} model bracket [{float(lo)}, {float(hi)}]")
        return self.compare(post, cap_post, where)

    def stats_check(self, post, where, props=("C06",)):
        rows, s = post["rows"], post["stats"]
        n = len(rows)
        off = F(float(self.a.qd_score_offset))
        total = sum(r["obj"] for r in rows.values())
        dt = self.dt
        bad = None
        if not (s["num"] == n == post["len"] == post["cells"]):
            bad = f"num_elites={s['num']} len={post['len']} cells={post['cells']} but {n} entries"
        elif not archlib.close(s["qd"], total - n * off, dt, 64 * max(1, n)):
            bad = f"qd_score={s['qd']} ≠ {total - n * off}"
        elif n and s["cov"] != 1:
            bad = f"coverage={s['cov']} ≠ 1 (documented cells = len convention)"
        elif n and not archlib.close(s["nqd"], (total - n * off) / n, dt, 64):
            bad = f"norm_qd_score={s['nqd']} ≠ qd_score/len"
        elif n and not archlib.close(s["mean"], total / n, dt, 64):
            bad = f"obj_mean={s['mean']} ≠ {total / n}"
        elif n and (post["best"] is None or post["best"]["obj"] != s["max"] or post["best"]["tok"] is None):
            bad = f"best_elite {post['best']} is not a complete entry with objective obj_max={s['max']}"
        elif n and s["max"] < max(r["obj"] for r in rows.values()):
            bad = f"obj_max={s['max']} below the current maximum"
        elif n == 0 and (s["max"] is not None or post["best"] is not None or s["qd"] != 0):
            bad = "empty archive but statistics not reset"
        return self.F_any(props, "oracle", f"{where}: {bad}") if bad else None

    def self_retrieval(self, post, where, props=("C07",)):
        rows = post["rows"]
        if not rows:
            return None
        idx = sorted(rows)
        ms = np.array([[float(x) for x in rows[i]["meas"]] for i in idx], dtype=NP[self.dt])
        occ, data = self.a.retrieve(ms)
        for k, i in enumerate(idx):
            j = int(data["index"][k])
            if not occ[k] or j not in rows or rows[j]["meas"] != rows[i]["meas"]:
                return self.F_any(props, "oracle", f"{where}: entry {i} is not found by querying its own measures (got index {j}, occupied {bool(occ[k])})")
        return None

    def compare(self, post, cap_post, where):
        line = self.drv.ask("state")
        md = dict(t.split("=", 1) for t in line.split())
        ms = archlib.parse_model_state(" ".join(t for t in line.split() if not t.startswith(("cap=", "bounds="))))
        if int(md["cap"]) != cap_post:
            return self.F_("C14", "corr", f"{where}: capacity impl={cap_post} model={md['cap']}")
        if {c: (r["tok"], r["obj"]) for c, r in ms["rows"].items()} != {c: (r["tok"], r["obj"]) for c, r in post["rows"].items()}:
            return self.F_("C14", "corr", f"{where}: contents impl={ {c: r['tok'] for c, r in sorted(post['rows'].items())} } "
                           f"model={ {c: r['tok'] for c, r in sorted(ms['rows'].items())} }")
        s, t = post["stats"], ms["stats"]
        if s["num"] != t["num"] or s["max"] != t["max"] or not archlib.close(s["qd"], t["qd"], self.dt, 64 * max(1, s["num"])) \
                or not archlib.close(s["nqd"], t["nqd"], self.dt, 64) or s["cov"] != t["cov"]:
            return self.F_("C06", "corr", f"{where}: stats impl={s} model={t}") or self.F_("C14", "corr", f"{where}: stats differ")
        pb, mb = post["best"], ms["best"]
        if (pb is None) != (mb is None) or (pb and (pb["tok"], pb["obj"]) != (mb["tok"], mb["obj"])):
            return self.F_("C06", "corr", f"{where}: best_elite impl={pb and pb['tok']} model={mb and mb['tok']}")
        want_b = None
        if md["bounds"] != "none":
            lo, hi = md["bounds"].split("|")
            want_b = ([F(x) for x in lo.split(",")], [F(x) for x in hi.split(",")])
        got_b = self.read_bounds(self.peek)
        got_b = None if got_b[0] is None or got_b[1] is None else got_b
        if got_b != want_b:
            return self.F_("C14", "corr", f"{where}: bounds impl={got_b} model={want_b}")
        return None

    def run(self):
        try:
            for k, op in enumerate(self.case["ops"]):
                where = f"op#{k} {op['op']}"
                f = None
                self.peek = op.get("peek", "both")
                if op["op"] == "add":
                    f = self.do_add(op["rows"], False, where)
                elif op["op"] == "add1":
                    f = self.do_add([op["row"]], True, where)
                elif op["op"] == "clear":
                    self.a.clear()
                    self.drv.ask("clear")
                    post = self.obs()
                    if post["rows"]:
                        f = self.F_("C14", "oracle", f"{where}: entries survive clear")
                    f = f or self.bounds_check(post, where) or self.stats_check(post, where) or \
                        self.compare(post, int(self.a.capacity), where)
                elif op["op"] == "bounds":
                    f = self.bounds_check(self.obs(), where)
                elif op["op"] == "ckpt":
                    self.a = archlib.checkpoint(self.a, op.get("how", "pickle"))
                    self.bump(f"ckpt:{op.get('how', 'pickle')}")
                elif op["op"] == "bad":
                    f = self.do_bad(op, where)
                elif op["op"] == "rej":
                    f = self.do_rej(op, where)
                elif op["op"] == "kwmut":
                    self.kwmut(op["how"])
                if f is None and op["op"] in ("ckpt", "bad", "kwmut"):
                    # the bounds describe the contents after EVERY operation (on the copy a checkpoint continues
                    # with, after a malformed call of any entry point, after the caller re-used its options dict)
                    f = self.bounds_check(self.obs(), where)
                if f is not None:
                    return f
            return None
        finally:
            self.drv.close()


def run_case(case, props=("C14",), ctx=None):
    r = Run(case, props)
    f = archlib.guarded(r, set(props))
    if ctx is not None:
        for k, v in r.stat.items():
            ctx.count(f"{case.get('stratum', 'case')}:{k}", v)
        ctx.count("undecided-admissions", r.undecided)
        ctx.count("capacity-growths", r.grew)
        for key in ("tree", "box", "far", "tenths"):
            if case.get(key) not in (None, False):
                ctx.count(f"{case.get('stratum', 'case')}:case-{key}")
    return f


def nontrivial(case):
    return sum(len(op.get("rows", [])) if op["op"] == "add" else 1 for op in case["ops"] if op["op"] in ("add", "add1")) >= 4


def gen_highdim(rng):
    """measure spaces of 21 .. 40 dimensions (beyond any dimension at which a search might switch strategy)"""
    case = gen_case(rng, nd=rng.choice([21, 24, 33, 40]))
    case["ops"] = case["ops"][:6]
    return case


def gen_bigbatch(rng):
    """one add of a few thousand candidates into an EMPTY archive (every one is novel and becomes an entry, in order,
    across several capacity doublings), followed by small adds judged against those thousands of entries"""
    case = gen_case(rng, nd=rng.choice([1, 2]))
    case.update(cap=rng.choice([1, 3, 128]), layout=rng.choice(["", "s"]), far=False)
    n = rng.choice([2049, 2100, 4097])
    tok = [10**6]

    def row():
        tok[0] += 1
        return [tok[0], q(F(rng.randint(-6, 6), 2)), [q(F(rng.randint(-40, 40), 4)) for _ in range(case["nd"])]]

    case["ops"] = [{"op": "add", "rows": [row() for _ in range(n)]}, {"op": "add1", "row": row()},
                   {"op": "add", "rows": [row() for _ in range(3)]}]
    return box_shift(case)


def run(ctx):
    ctx.explore("histories", gen_case, lambda c: run_case(c, {"C14"}, ctx), ctx.n(400, 30000), nontrivial=nontrivial,
                time_budget=35 if ctx.quick else 420)
    ctx.explore("high-dimension", gen_highdim, lambda c: run_case(c, {"C14"}, ctx), ctx.n(12, 600), nontrivial=nontrivial,
                time_budget=8 if ctx.quick else 90)
    ctx.explore("big-batch", gen_bigbatch, lambda c: run_case(c, {"C14"}, ctx), ctx.n(2, 24), time_budget=25 if ctx.quick else 200)


def replay(ctx, case):
    return run_case(case, {"C14"})
