import Mathlib.Algebra.Order.Floor.Ring
import Mathlib.Data.Rat.Floor
import Mathlib.Tactic.Linarith
import Mathlib.Tactic.FieldSimp

example (q : ℚ) (j : ℤ) (h1 : (j : ℚ) ≤ q) (h2 : q < j + 1) : q.floor = j := by
  have : ⌊q⌋ = j := Int.floor_eq_iff.mpr ⟨h1, h2⟩
  exact this   -- `⌊q⌋` is `Rat.floor q` by definition of the FloorRing instance on ℚ

-- grid: cell containment. d cells, l<u, eps≥0, m in [b_j, b_{j+1} - eps/d)
example (d : ℕ) (hd : 0 < d) (l u eps m : ℚ) (hlu : l < u) (heps : 0 ≤ eps) (j : ℤ)
    (hlo : l + j * (u - l) / d ≤ m) (hhi : m < l + (j + 1) * (u - l) / d - eps / d) :
    ⌊(d * (m - l) + eps) / (u - l)⌋ = j := by
  have hd' : (0:ℚ) < d := by exact_mod_cast hd
  have hw : 0 < u - l := by linarith
  rw [Int.floor_eq_iff]
  constructor
  · rw [le_div_iff₀ hw]
    have : (j:ℚ) * (u - l) ≤ d * (m - l) := by
      have := mul_le_mul_of_nonneg_left hlo (le_of_lt hd')
      field_simp at this ⊢
      linarith
    linarith
  · rw [div_lt_iff₀ hw]
    have := mul_lt_mul_of_pos_left hhi hd'
    field_simp at this ⊢
    linarith
-- monotone
example (d : ℕ) (l u eps m m' : ℚ) (hlu : l < u) (hm : m ≤ m') :
    ⌊(d * (m - l) + eps) / (u - l)⌋ ≤ ⌊(d * (m' - l) + eps) / (u - l)⌋ := by
  apply Int.floor_le_floor
  have hw : 0 < u - l := by linarith
  apply div_le_div_of_nonneg_right _ (le_of_lt hw)
  have : (0:ℚ) ≤ d := Nat.cast_nonneg d
  nlinarith
