import numpy as np, warnings
from ribs.archives import GridArchive
from ribs.emitters import EmitterBase, GaussianEmitter, GradientArborescenceEmitter, GradientOperatorEmitter, EvolutionStrategyEmitter, IsoLineEmitter
from ribs.schedulers import BanditScheduler, Scheduler
warnings.simplefilter("ignore")
print("== D9 bandit with zero successes")
class Spy(EmitterBase):
    def __init__(self, archive, name, n=2):
        super().__init__(archive, solution_dim=1, bounds=None); self.name=name; self.n=n; self.asked=0
    def ask(self): self.asked+=1; return np.zeros((self.n,1))
    def tell(self, *a, **k): pass
arch = GridArchive(solution_dim=1, dims=[4], ranges=[(0,1)], learning_rate=0.5, threshold_min=100.0)
pool=[Spy(arch,i) for i in range(5)]
s = BanditScheduler(arch, pool, 2, reselect="terminated")
for it in range(6):
    sols = s.ask()
    print(it, "active", np.where(s.active)[0].tolist(), "selection", s._selection.tolist(), "success", s._success.tolist())
    s.tell(np.zeros(len(sols)), np.full((len(sols),1),0.5))   # nothing inserted (threshold_min=100)
print("== reselect all")
arch = GridArchive(solution_dim=1, dims=[4], ranges=[(0,1)], learning_rate=0.5, threshold_min=100.0)
pool=[Spy(arch,i) for i in range(5)]
s = BanditScheduler(arch, pool, 2, reselect="all")
for it in range(6):
    sols = s.ask()
    print(it, "active", np.where(s.active)[0].tolist(), "selection", s._selection.tolist())
    s.tell(np.zeros(len(sols)), np.full((len(sols),1),0.5))
